//! spec -> code: replay NutsTree behaviours (emitted by TLC from MC_NutsTree) into the
//! real tree builder `nuts::draw`, with a scripted Hamiltonian (orbit facts served in
//! the order the behaviour lists them, every query checked against the behaviour) and
//! a scripted RNG (directions on next_u32, Bernoulli words on next_u64 placed just
//! below / above the expected acceptance probability).

use std::cell::RefCell;
use std::collections::{HashMap, VecDeque};
use std::convert::Infallible;
use std::io::{BufRead, Write};
use std::rc::Rc;

use nuts_rs::rand::TryRng;
use nuts_rs::verif::{
    self, Collector, Direction, Hamiltonian, LeapfrogResult, NutsOptions, Point, State, StatePool,
};
use nuts_rs::{CpuLogpFunc, CpuMath, CpuMathError, HasDims, LogpError, Math, SamplerStats};
use serde_json::{Value as J, json};

#[derive(Debug)]
pub struct DummyLogp {
    pub dim: usize,
}
#[derive(Debug, thiserror::Error)]
#[error("scripted logp error (recoverable={0})")]
pub struct ScriptErr(pub bool);
impl LogpError for ScriptErr {
    fn is_recoverable(&self) -> bool {
        self.0
    }
}
impl HasDims for DummyLogp {
    fn dim_sizes(&self) -> HashMap<String, u64> {
        HashMap::from([("unconstrained_parameter".to_string(), self.dim as u64)])
    }
}
impl CpuLogpFunc for DummyLogp {
    type LogpError = ScriptErr;
    type FlowParameters = ();
    type ExpandedVector = Vec<f64>;
    fn dim(&self) -> usize {
        self.dim
    }
    fn logp(&mut self, _p: &[f64], _g: &mut [f64]) -> Result<f64, ScriptErr> {
        Ok(0.0)
    }
    fn expand_vector<R: nuts_rs::rand::Rng + ?Sized>(
        &mut self,
        _rng: &mut R,
        array: &[f64],
    ) -> Result<Vec<f64>, CpuMathError> {
        Ok(array.to_vec())
    }
}

type M = CpuMath<DummyLogp>;

#[derive(Debug)]
pub struct ScriptPoint {
    idx: i64,
    energy: f64,
    initial_energy: f64,
    pos: <M as Math>::Vector,
    grad: <M as Math>::Vector,
}

impl SamplerStats<M> for ScriptPoint {
    type Stats = ();
    type StatsOptions = ();
    fn extract_stats(&self, _math: &mut M, _opt: ()) {}
}

impl Point<M> for ScriptPoint {
    fn position(&self) -> &<M as Math>::Vector {
        &self.pos
    }
    fn gradient(&self) -> &<M as Math>::Vector {
        &self.grad
    }
    fn index_in_trajectory(&self) -> i64 {
        self.idx
    }
    fn energy(&self) -> f64 {
        self.energy
    }
    fn logp(&self) -> f64 {
        -self.energy
    }
    fn initial_energy(&self) -> f64 {
        self.initial_energy
    }
    fn new(math: &mut M) -> Self {
        ScriptPoint {
            idx: 0,
            energy: 0.0,
            initial_energy: 0.0,
            pos: math.new_array(),
            grad: math.new_array(),
        }
    }
    fn copy_into(&self, math: &mut M, other: &mut Self) {
        other.idx = self.idx;
        other.energy = self.energy;
        other.initial_energy = self.initial_energy;
        math.copy_into(&self.pos, &mut other.pos);
        math.copy_into(&self.grad, &mut other.grad);
    }
}

/// Shared script state: the expected events not yet consumed and the first mismatch.
pub struct Script {
    pub expected: VecDeque<J>,
    pub mismatch: Option<String>,
    pub observed: Vec<J>,
}

impl Script {
    fn fail(&mut self, msg: String) {
        if self.mismatch.is_none() {
            self.mismatch = Some(msg);
        }
    }
    /// Pop the next expected event of one of the kinds the *Hamiltonian* or *RNG* serves
    /// (dir, leap, turn, merge-accept); events the real code only reports (merge, sub_rej,
    /// extra) are matched afterwards against the hook log.
    fn next_served(&mut self, kind: &str) -> Option<J> {
        while let Some(ev) = self.expected.front() {
            let e = ev["e"].as_str().unwrap_or("");
            if e == kind {
                return self.expected.pop_front();
            }
            if matches!(e, "sub_rej" | "extra" | "init") || (e == "merge" && kind != "merge") {
                // reported-only events (or a merge that needed no random number)
                if e == "merge" {
                    // a merge is skipped by the RNG path only if the model says the accept is forced
                    let forced = ev["pn"] == ev["pd"];
                    if !forced {
                        let msg = format!("expected RNG draw for merge {ev} but code asked for {kind}");
                        self.fail(msg);
                        return None;
                    }
                }
                self.expected.pop_front();
                continue;
            }
            let msg = format!("code asked for `{kind}` but the behaviour expects {ev}");
            self.fail(msg);
            return None;
        }
        self.fail(format!("code asked for `{kind}` after the behaviour ended"));
        None
    }
}

pub struct ScriptHamiltonian {
    pool: StatePool<M, ScriptPoint>,
    script: Rc<RefCell<Script>>,
    step_size: f64,
}

impl SamplerStats<M> for ScriptHamiltonian {
    type Stats = ();
    type StatsOptions = ();
    fn extract_stats(&self, _math: &mut M, _opt: ()) {}
}

impl Hamiltonian<M> for ScriptHamiltonian {
    type Point = ScriptPoint;

    fn leapfrog<C: Collector<M, Self::Point>>(
        &mut self,
        math: &mut M,
        start: &State<M, Self::Point>,
        dir: Direction,
        _step_size_factor: f64,
        _energy_baseline: f64,
        _max_energy_error: f64,
        collector: &mut C,
    ) -> LeapfrogResult<M, Self::Point> {
        let d = match dir {
            Direction::Forward => 1,
            Direction::Backward => -1,
        };
        let sidx = start.index_in_trajectory();
        let ev = self.script.borrow_mut().next_served("leap");
        let mut res = "ok".to_string();
        let mut w = 1.0;
        match ev {
            Some(ev) => {
                if ev["start"].as_i64() != Some(sidx) || ev["d"].as_i64() != Some(d) {
                    self.script.borrow_mut().fail(format!(
                        "leapfrog(start={sidx}, dir={d}) but the behaviour expects {ev}"
                    ));
                }
                res = ev["res"].as_str().unwrap_or("ok").to_string();
                w = ev["w"].as_f64().unwrap_or(1.0);
            }
            None => {
                // after a mismatch: end the trajectory quickly
                res = "div".to_string();
            }
        }
        verif::emit("leap", || json!({"ev": "leap", "start": sidx, "sign": d, "res": res}));
        let mut out = self.pool.new_state(math);
        {
            let p = out.try_point_mut().expect("fresh state has no other handle");
            p.idx = sidx + d;
            p.energy = -(w.ln());
            p.initial_energy = start.point().initial_energy;
            let mut v = vec![0.0; math.dim()];
            if !v.is_empty() {
                v[0] = p.idx as f64;
            }
            math.read_from_slice(&mut p.pos, &v);
        }
        match res.as_str() {
            "ok" => {
                collector.register_leapfrog(math, start, &out, None);
                LeapfrogResult::Ok(out)
            }
            "div" => {
                let info = nuts_rs::DivergenceInfo {
                    start_momentum: None,
                    start_location: None,
                    start_gradient: None,
                    end_location: None,
                    energy_error: Some(f64::INFINITY),
                    end_idx_in_trajectory: None,
                    start_idx_in_trajectory: Some(sidx),
                    logp_function_error: None,
                };
                collector.register_leapfrog(math, start, &out, Some(&info));
                LeapfrogResult::Divergence(info)
            }
            _ => LeapfrogResult::Err(ScriptErr(false)),
        }
    }

    fn is_turning(
        &self,
        _math: &mut M,
        s1: &State<M, Self::Point>,
        s2: &State<M, Self::Point>,
    ) -> bool {
        let (i, j) = (s1.index_in_trajectory(), s2.index_in_trajectory());
        let ev = self.script.borrow_mut().next_served("turn");
        match ev {
            Some(ev) => {
                if ev["i"].as_i64() != Some(i) || ev["j"].as_i64() != Some(j) {
                    self.script.borrow_mut().fail(format!(
                        "is_turning({i},{j}) but the behaviour expects {ev}"
                    ));
                }
                ev["b"].as_bool().unwrap_or(true)
            }
            None => true,
        }
    }

    fn init_state(
        &mut self,
        math: &mut M,
        _init: &[f64],
    ) -> Result<State<M, Self::Point>, nuts_rs::NutsError> {
        Ok(self.pool.new_state(math))
    }
    fn init_state_untransformed(
        &mut self,
        math: &mut M,
        _init: &[f64],
    ) -> Result<State<M, Self::Point>, nuts_rs::NutsError> {
        Ok(self.pool.new_state(math))
    }
    fn initialize_trajectory<R: nuts_rs::rand::Rng + ?Sized>(
        &self,
        _math: &mut M,
        state: &mut State<M, Self::Point>,
        _resample: bool,
        _rng: &mut R,
    ) -> Result<(), nuts_rs::NutsError> {
        let p = state.try_point_mut().expect("init state is uniquely held");
        p.idx = 0;
        p.energy = 0.0;
        p.initial_energy = 0.0;
        Ok(())
    }
    fn pool(&mut self) -> &mut StatePool<M, Self::Point> {
        &mut self.pool
    }
    fn copy_state(&mut self, math: &mut M, state: &State<M, Self::Point>) -> State<M, Self::Point> {
        self.pool.copy_state(math, state)
    }
    fn step_size(&self) -> f64 {
        self.step_size
    }
    fn step_size_mut(&mut self) -> &mut f64 {
        &mut self.step_size
    }
}

pub struct ScriptRng {
    script: Rc<RefCell<Script>>,
}

impl TryRng for ScriptRng {
    type Error = Infallible;
    fn try_next_u32(&mut self) -> Result<u32, Infallible> {
        // direction: random::<bool>() is the sign bit of next_u32
        let ev = self.script.borrow_mut().next_served("dir");
        let d = ev.and_then(|e| e["d"].as_i64()).unwrap_or(1);
        Ok(if d == 1 { 0x8000_0000 } else { 0 })
    }
    fn try_next_u64(&mut self) -> Result<u64, Infallible> {
        // Bernoulli(p): next_u64() < (p * 2^64) as u64
        let ev = self.script.borrow_mut().next_served("merge");
        let Some(ev) = ev else { return Ok(0) };
        let pn = ev["pn"].as_f64().unwrap_or(1.0);
        let pd = ev["pd"].as_f64().unwrap_or(1.0);
        let acc = ev["acc"].as_bool().unwrap_or(true);
        if pn == pd {
            // tie: the model has no choice; answer accept
            return Ok(0);
        }
        let p = pn / pd;
        let scale = 18446744073709551616.0_f64;
        let word = if acc {
            (p * (1.0 - 1e-9) * scale) as u64 - 1
        } else {
            (p * (1.0 + 1e-9) * scale) as u64 + 1
        };
        Ok(word)
    }
    fn try_fill_bytes(&mut self, dst: &mut [u8]) -> Result<(), Infallible> {
        self.script.borrow_mut().fail("unexpected fill_bytes".into());
        dst.fill(0);
        Ok(())
    }
}

struct NullCollector;
impl Collector<M, ScriptPoint> for NullCollector {}

fn cmp_field(exp: &J, obs: &J, e: &str, o: &str) -> bool {
    exp[e] == obs[o]
}

/// Replay one behaviour; returns Ok(stats) or Err(description of the first mismatch).
pub fn replay_one(beh: &J) -> Result<(usize, usize), String> {
    let events = beh["events"].as_array().ok_or("no events")?;
    let init = &events[0];
    let dim = init["dim"].as_u64().unwrap_or(1) as usize;
    let options = NutsOptions {
        maxdepth: init["maxd"].as_u64().unwrap(),
        mindepth: init["mind"].as_u64().unwrap(),
        check_turning: init["check"].as_bool().unwrap(),
        store_divergences: false,
        target_integration_time: None,
        extra_doublings: init["extra"].as_u64().unwrap(),
        max_energy_error: 1000.0,
    };
    let mut math = CpuMath::new(DummyLogp { dim });
    let script = Rc::new(RefCell::new(Script {
        expected: events.iter().cloned().collect(),
        mismatch: None,
        observed: vec![],
    }));
    let mut ham = ScriptHamiltonian {
        pool: StatePool::new(&mut math, 10),
        script: script.clone(),
        step_size: 1.0,
    };
    let mut rng = ScriptRng { script: script.clone() };
    let mut init_state = ham.pool.new_state(&mut math);
    let mut collector = NullCollector;

    verif::install_local_sink();
    let result = std::panic::catch_unwind(std::panic::AssertUnwindSafe(|| {
        verif::nuts_draw(&mut math, &mut init_state, &mut rng, &mut ham, &options, &mut collector)
    }));
    let observed = verif::take_local_sink();

    if let Some(m) = script.borrow().mismatch.clone() {
        return Err(m);
    }
    // Compare the full observed event list with the behaviour.
    let exp: Vec<&J> = events.iter().filter(|e| e["e"] != "init").collect();
    let obs: Vec<&J> = observed
        .iter()
        .filter(|e| !matches!(e["ev"].as_str(), Some("traj_init") | Some("ret") | Some("ret_err")))
        .collect();
    let n = exp.len().min(obs.len());
    for k in 0..n {
        let (e, o) = (exp[k], obs[k]);
        let ok = match e["e"].as_str().unwrap_or("") {
            "dir" => o["ev"] == "dir" && ((e["d"] == 1) == (o["d"] == "F")),
            "leap" => {
                o["ev"] == "leap"
                    && cmp_field(e, o, "start", "start")
                    && cmp_field(e, o, "d", "sign")
                    && cmp_field(e, o, "res", "res")
            }
            "turn" => {
                o["ev"] == "turn"
                    && cmp_field(e, o, "k", "k")
                    && cmp_field(e, o, "i", "i")
                    && cmp_field(e, o, "j", "j")
                    && cmp_field(e, o, "b", "b")
            }
            "merge" => {
                let p_exp = e["pn"].as_f64().unwrap() / e["pd"].as_f64().unwrap();
                let p_obs = o["p"].as_f64().unwrap_or(f64::NAN).min(1.0);
                o["ev"] == "merge"
                    && cmp_field(e, o, "main", "main")
                    && cmp_field(e, o, "acc", "acc")
                    && cmp_field(e, o, "depth", "depth")
                    && cmp_field(e, o, "lo", "lo")
                    && cmp_field(e, o, "hi", "hi")
                    && cmp_field(e, o, "draw", "draw")
                    && (p_exp - p_obs).abs() <= 1e-12 * p_exp.max(1e-300)
            }
            "sub_rej" => {
                o["ev"] == "sub_rej" && cmp_field(e, o, "why", "why") && cmp_field(e, o, "depth", "depth")
            }
            "extra" => o["ev"] == "extra" && cmp_field(e, o, "depth", "depth"),
            _ => false,
        };
        if !ok {
            return Err(format!("event {k}: behaviour has {e}, implementation did {o}"));
        }
    }
    if exp.len() != obs.len() {
        return Err(format!(
            "behaviour has {} events, implementation produced {} (next: {:?})",
            exp.len(),
            obs.len(),
            if obs.len() > n { obs[n].to_string() } else { exp[n].to_string() }
        ));
    }
    // Result
    let r = &beh["res"];
    match result {
        Err(_) => Err("implementation panicked".to_string()),
        Ok(Err(_)) => {
            if r["err"] == true {
                Ok((events.len(), 0))
            } else {
                Err(format!("implementation returned Err, behaviour expects {r}"))
            }
        }
        Ok(Ok((state, info))) => {
            if r["err"] == true {
                return Err("behaviour expects an error, implementation returned a draw".into());
            }
            let got = json!({"idx": state.index_in_trajectory(), "depth": info.depth,
                "maxd": info.reached_maxdepth, "div": info.divergence_info.is_some()});
            for f in ["idx", "depth", "maxd", "div"] {
                if got[f] != r[f] {
                    return Err(format!("result field {f}: behaviour {r}, implementation {got}"));
                }
            }
            let merges = events.iter().filter(|e| e["e"] == "merge").count();
            Ok((events.len(), merges))
        }
    }
}

/// Read TLC output on stdin (or a file), replay every `REPLAY` line.
pub fn main(args: &[String]) -> i32 {
    let path = args.first().cloned().unwrap_or("-".into());
    let out_path = args.get(1).cloned();
    let reader: Box<dyn BufRead> = if path == "-" {
        Box::new(std::io::BufReader::new(std::io::stdin()))
    } else {
        Box::new(std::io::BufReader::new(std::fs::File::open(&path).expect("open")))
    };
    std::panic::set_hook(Box::new(|_| {}));
    let mut total = 0usize;
    let mut nontrivial = 0usize;
    let mut failures: Vec<J> = vec![];
    let mut samples: Vec<J> = vec![];
    let mut distinct = std::collections::HashSet::new();
    for line in reader.lines() {
        let line = line.expect("read");
        let Some(pos) = line.find("<<\"REPLAY\", ") else { continue };
        let inner = &line[pos + 12..];
        let inner = inner.trim_end().trim_end_matches(">>");
        // TLC prints the JSON as a TLA+ string literal
        let s: String = match serde_json::from_str::<String>(inner) {
            Ok(s) => s,
            Err(_) => continue,
        };
        let beh: J = match serde_json::from_str(&s) {
            Ok(b) => b,
            Err(_) => continue,
        };
        total += 1;
        if !distinct.insert(s.clone()) {
            continue;
        }
        match replay_one(&beh) {
            Ok((_, merges)) => {
                if merges >= 2 {
                    nontrivial += 1;
                    if samples.len() < 3 {
                        samples.push(beh.clone());
                    }
                }
            }
            Err(msg) => {
                if failures.len() < 5 {
                    failures.push(json!({"behaviour": beh, "mismatch": msg}));
                } else {
                    failures.push(json!({"mismatch": msg}));
                }
            }
        }
    }
    let summary = json!({"behaviours": total, "distinct": distinct.len(), "nontrivial": nontrivial,
        "failures": failures.len(), "first_failures": failures.iter().take(5).collect::<Vec<_>>(),
        "samples": samples});
    if let Some(p) = out_path {
        std::fs::File::create(p).unwrap().write_all(summary.to_string().as_bytes()).unwrap();
    }
    println!("{}", json!({"behaviours": total, "distinct": distinct.len(), "nontrivial": nontrivial, "failures": failures.len()}));
    if !failures.is_empty() {
        eprintln!("first mismatch: {}", failures[0]["mismatch"]);
        1
    } else {
        0
    }
}
