//! C14 (declaration side): draw variables declared through `#[derive(Storable)]`.
//! A struct with one field of every type the derive supports is the model's expanded draw; the
//! declared schema (names, item types, dims) is compared with what `get_all` hands to the storage
//! (value variant, length), and the values are recorded through the real backends, which allocate
//! their columns from the declaration.  Output: one JSON object on stdout.

use std::collections::HashMap;

use nuts_rs::verif::{ChainStorage, StorageConfig, TraceStorage};
use nuts_rs::{
    ArrowConfig, CpuLogpFunc, CpuMath, CpuMathError, CsvConfig, DiagNutsSettings, HasDims, HashMapConfig, HashMapValue,
    ItemType, NdarrayConfig, Progress, Settings, Storable, Value,
};
use serde_json::{Value as J, json};

use crate::record::panic_msg;
use crate::replay_storage::Never;

const DA: usize = 3;
const DB: usize = 2;

#[derive(Storable, Clone, Debug)]
pub struct DInner {
    in_f64: f64,
    #[storable(dims("da"))]
    in_v_i64: Vec<i64>,
}

#[derive(Storable, Clone, Debug)]
pub struct DInner2 {
    in2_f32: f32,
    #[storable(dims("db"))]
    in2_v_f32: Vec<f32>,
}

#[derive(Storable, Clone, Debug)]
pub struct DerivedDraw {
    s_u64: u64,
    s_i64: i64,
    s_f64: f64,
    s_f32: f32,
    s_bool: bool,
    o_u64: Option<u64>,
    o_i64: Option<i64>,
    o_f64: Option<f64>,
    o_f32: Option<f32>,
    o_bool: Option<bool>,
    #[storable(dims("da"))]
    v_u64: Vec<u64>,
    #[storable(dims("da"))]
    v_i64: Vec<i64>,
    #[storable(dims("da", "db"))]
    v_f64: Vec<f64>,
    #[storable(dims("da"))]
    v_f32: Vec<f32>,
    #[storable(dims("db"))]
    v_bool: Vec<bool>,
    #[storable(dims("da"))]
    ov_u64: Option<Vec<u64>>,
    #[storable(dims("db"))]
    ov_i64: Option<Vec<i64>>,
    #[storable(dims("da"))]
    ov_f64: Option<Vec<f64>>,
    #[storable(dims("da", "db"))]
    ov_f32: Option<Vec<f32>>,
    #[storable(flatten)]
    inner: DInner,
    #[storable(flatten)]
    oinner: Option<DInner2>,
    #[storable(ignore)]
    _skipped: u8,
}

fn draw(r: u64, c: u64) -> DerivedDraw {
    let b = (r * 16 + c * 4) as f64;
    DerivedDraw {
        s_u64: r * 10 + c,
        s_i64: -((r * 10 + c) as i64) - 1,
        s_f64: b + 0.5,
        s_f32: b as f32 + 0.25,
        s_bool: (r + c) % 2 == 0,
        o_u64: Some(r + 7),
        o_i64: Some(-(r as i64) - 7),
        o_f64: Some(b + 0.75),
        o_f32: Some(b as f32 + 0.125),
        o_bool: Some(r % 2 == 1),
        v_u64: (0..DA as u64).map(|j| r * 100 + j).collect(),
        v_i64: (0..DA as i64).map(|j| -(r as i64) * 100 - j).collect(),
        v_f64: (0..(DA * DB) as u64).map(|j| b + j as f64 * 0.5).collect(),
        v_f32: (0..DA as u64).map(|j| b as f32 + j as f32 * 0.25).collect(),
        v_bool: (0..DB as u64).map(|j| (r + j) % 2 == 0).collect(),
        ov_u64: Some((0..DA as u64).map(|j| r + j).collect()),
        ov_i64: Some((0..DB as i64).map(|j| -(r as i64) - j).collect()),
        ov_f64: Some((0..DA as u64).map(|j| b - j as f64).collect()),
        ov_f32: Some((0..(DA * DB) as u64).map(|j| b as f32 - j as f32).collect()),
        inner: DInner { in_f64: b + 0.0625, in_v_i64: (0..DA as i64).map(|j| j - r as i64).collect() },
        oinner: Some(DInner2 { in2_f32: b as f32, in2_v_f32: (0..DB as u64).map(|j| j as f32 + 0.5).collect() }),
        _skipped: 0,
    }
}

#[derive(Debug, Clone)]
pub struct DerivedLogp {
    dim: usize,
}
impl HasDims for DerivedLogp {
    fn dim_sizes(&self) -> HashMap<String, u64> {
        HashMap::from([
            ("unconstrained_parameter".to_string(), self.dim as u64),
            ("da".to_string(), DA as u64),
            ("db".to_string(), DB as u64),
        ])
    }
}
impl CpuLogpFunc for DerivedLogp {
    type LogpError = Never;
    type FlowParameters = ();
    type ExpandedVector = DerivedDraw;
    fn dim(&self) -> usize {
        self.dim
    }
    fn logp(&mut self, p: &[f64], g: &mut [f64]) -> Result<f64, Never> {
        let mut l = 0.0;
        for (x, gi) in p.iter().zip(g.iter_mut()) {
            l -= 0.5 * x * x;
            *gi = -x;
        }
        Ok(l)
    }
    fn expand_vector<R: nuts_rs::rand::Rng + ?Sized>(&mut self, _rng: &mut R, _array: &[f64]) -> Result<DerivedDraw, CpuMathError> {
        Ok(draw(0, 0))
    }
}

fn tname(t: ItemType) -> &'static str {
    match t {
        ItemType::F64 => "f64",
        ItemType::F32 => "f32",
        ItemType::I64 => "i64",
        ItemType::U64 => "u64",
        ItemType::Bool => "bool",
        ItemType::String => "string",
        _ => "other",
    }
}

/// (type, number of entries, is a scalar variant)
fn vinfo(v: &Value) -> (&'static str, usize, bool) {
    match v {
        Value::U64(x) => ("u64", x.len(), false),
        Value::I64(x) => ("i64", x.len(), false),
        Value::F64(x) => ("f64", x.len(), false),
        Value::F32(x) => ("f32", x.len(), false),
        Value::Bool(x) => ("bool", x.len(), false),
        Value::Strings(x) => ("string", x.len(), false),
        Value::ScalarString(_) => ("string", 1, true),
        Value::ScalarU64(_) => ("u64", 1, true),
        Value::ScalarI64(_) => ("i64", 1, true),
        Value::ScalarF64(_) => ("f64", 1, true),
        Value::ScalarF32(_) => ("f32", 1, true),
        Value::ScalarBool(_) => ("bool", 1, true),
        Value::DateTime64(_, x) => ("datetime", x.len(), false),
        Value::TimeDelta64(_, x) => ("timedelta", x.len(), false),
    }
}

fn progress(draw: u64, chain: u64, tuning: bool) -> Progress {
    let mut p = crate::replay_storage::template_progress();
    p.draw = draw;
    p.chain = chain;
    p.tuning = tuning;
    p
}

/// record `n` draws of one chain through a backend whose columns come from the declaration; returns what happened
fn through<C: StorageConfig>(name: &str, cfg: C, settings: &DiagNutsSettings, math: &CpuMath<DerivedLogp>, parent: &DerivedLogp,
    check: &dyn Fn(&<C::Storage as TraceStorage>::Finalized) -> Result<usize, String>) -> J {
    let r = std::panic::catch_unwind(std::panic::AssertUnwindSafe(|| -> Result<usize, String> {
        let trace = cfg.new_trace(settings, math).map_err(|e| format!("new_trace: {e:#}"))?;
        let mut ch = trace.initialize_trace_for_chain(0).map_err(|e| format!("init chain: {e:#}"))?;
        // statistics: the chain's own, taken from a real draw
        let mut rng = <nuts_rs::rand::rngs::SmallRng as nuts_rs::rand::SeedableRng>::seed_from_u64(1);
        let mut chain = settings.new_chain(0, CpuMath::new(parent.clone()), &mut rng);
        nuts_rs::Chain::set_position(&mut chain, &vec![0.1; parent.dim]).map_err(|e| format!("set_position: {e:#}"))?;
        for r in 0..4u64 {
            let (_pos, _exp, mut stats, info) = nuts_rs::Chain::expanded_draw(&mut chain).map_err(|e| format!("draw: {e:#}"))?;
            let m = nuts_rs::Chain::math(&chain);
            let dims = nuts_rs::verif::StatsDims::from(std::ops::Deref::deref(&m));
            let st = stats.get_all(&dims);
            let mut d = draw(r, 0);
            let dr = d.get_all(parent);
            let _ = info;
            ch.record_sample(settings, st, dr, &progress(r, 0, r < 2)).map_err(|e| format!("record_sample {r}: {e:#}"))?;
        }
        let part = ch.finalize().map_err(|e| format!("finalize chain: {e:#}"))?;
        let (err, fin) = trace.finalize(vec![Ok(part)]).map_err(|e| format!("finalize: {e:#}"))?;
        if let Some(e) = err {
            return Err(format!("finalize reported: {e:#}"));
        }
        check(&fin)
    }));
    match r {
        Ok(Ok(n)) => json!({"backend": name, "ok": true, "checked_values": n}),
        Ok(Err(e)) => json!({"backend": name, "ok": false, "error": e}),
        Err(p) => json!({"backend": name, "ok": false, "error": format!("panic: {}", panic_msg(&p))}),
    }
}

pub fn main(args: &[String]) -> i32 {
    std::panic::set_hook(Box::new(|_| {}));
    let parent = DerivedLogp { dim: 2 };
    let sizes = parent.dim_sizes();
    let mut fields = vec![];
    let names: Vec<String> = <DerivedDraw as Storable<DerivedLogp>>::names(&parent).iter().map(|s| s.to_string()).collect();
    let mut d = draw(1, 0);
    let values: Vec<(String, Option<Value>)> = d.get_all(&parent).into_iter().map(|(n, v)| (n.to_string(), v)).collect();
    for n in &names {
        let ty = <DerivedDraw as Storable<DerivedLogp>>::item_type(&parent, n);
        let dims: Vec<String> = <DerivedDraw as Storable<DerivedLogp>>::dims(&parent, n).iter().map(|s| s.to_string()).collect();
        let prod: u64 = dims.iter().map(|x| sizes.get(x).copied().unwrap_or(0)).product();
        let val = values.iter().find(|(vn, _)| vn == n);
        let (vt, vn, vs) = match val {
            Some((_, Some(v))) => {
                let (t, k, s) = vinfo(v);
                (json!(t), json!(k), json!(s))
            }
            Some((_, None)) => (json!("absent"), J::Null, J::Null),
            None => (json!("missing"), J::Null, J::Null),
        };
        fields.push(json!({"name": n, "declared": tname(ty), "dims": dims, "dim_product": prod,
            "value_type": vt, "value_len": vn, "value_scalar": vs}));
    }
    let undeclared: Vec<String> = values.iter().filter(|(n, _)| !names.contains(n)).map(|(n, _)| n.clone()).collect();
    let settings = DiagNutsSettings { num_tune: 2, num_draws: 2, ..Default::default() };
    let math = CpuMath::new(parent.clone());
    let mut backends = vec![];
    backends.push(through("hashmap", HashMapConfig::new(), &settings, &math, &parent, &|fin| {
        // the recorded f32 / f64 / integer values of the last draw come back with the declared type
        let r = fin.first().ok_or("no chain")?;
        let mut n = 0;
        for name in <DerivedDraw as Storable<DerivedLogp>>::names(&parent) {
            let ty = <DerivedDraw as Storable<DerivedLogp>>::item_type(&parent, name);
            match (r.draws.get(name), ty) {
                (Some(HashMapValue::F64(_)), ItemType::F64)
                | (Some(HashMapValue::F32(_)), ItemType::F32)
                | (Some(HashMapValue::I64(_)), ItemType::I64)
                | (Some(HashMapValue::U64(_)), ItemType::U64)
                | (Some(HashMapValue::Bool(_)), ItemType::Bool) => n += 1,
                (Some(other), _) => return Err(format!("draw variable {name} declared {} came back as {other:?}", tname(ty)).chars().take(300).collect()),
                (None, _) => return Err(format!("draw variable {name} missing from the result")),
            }
        }
        Ok(n)
    }));
    backends.push(through("ndarray", NdarrayConfig::new(), &settings, &math, &parent, &|fin| Ok(fin.draws.len())));
    backends.push(through("arrow", ArrowConfig::default(), &settings, &math, &parent, &|fin: &Vec<nuts_rs::ArrowTrace>| {
        Ok(fin.first().map(|t| t.posterior.num_columns()).unwrap_or(0))
    }));
    let dir = std::path::PathBuf::from(args.first().cloned().unwrap_or(".".into())).join(format!("vh_derive_csv_{}", std::process::id()));
    let _ = std::fs::remove_dir_all(&dir);
    backends.push(through("csv", CsvConfig::new(&dir), &settings, &math, &parent, &|_| Ok(0)));
    let _ = std::fs::remove_dir_all(&dir);
    println!("{}", json!({"fields": fields, "values_without_declaration": undeclared, "backends": backends}));
    0
}
