//! code -> spec for the parallel controller: run the real `Sampler` under a perturbing
//! scheduler with a scripted user thread, a recording storage backend and optional fault
//! injection; write the global event log (hook events + user call/return events) as NDJSON.

use std::collections::HashMap;
use std::io::{BufRead, Write};
use std::ops::Deref;
use std::sync::atomic::{AtomicU64, Ordering};
use std::sync::{Arc, Mutex};
use std::time::{Duration, Instant};

use nuts_rs::rand::rngs::ChaCha8Rng;
use nuts_rs::rand::{Rng, SeedableRng};
use nuts_rs::verif::{self, ChainStorage, StatsDims, StorageConfig, TraceStorage};
use nuts_rs::{
    Chain, CpuMath, DiagMclmcSettings, DiagNutsSettings, LowRankNutsSettings, Math, Model, Progress,
    Sampler, SamplerWaitResult, Settings, Storable, Value,
};
use serde_json::{Value as J, json};

use crate::density::{FaultKind, TestLogp, kind_from_json};
use crate::record::{panic_msg, patched, value_to_json};

// ---------------------------------------------------------------- model
pub struct TestModel {
    pub template: TestLogp,
    pub init: Vec<f64>,
    /// first u64 of each chain's RNG stream -> chain id (the controller's own call maps to -1)
    pub tags: HashMap<u64, i64>,
    /// chain -> faults by evaluation index
    pub faults: HashMap<i64, HashMap<u64, FaultKind>>,
    /// chains whose model construction fails
    pub math_fail: Vec<i64>,
    /// chains whose initial position generation fails
    pub init_fail: Vec<i64>,
    /// chain -> delay per evaluation (microseconds)
    pub delays: HashMap<i64, u64>,
    pub last_chain: Mutex<HashMap<std::thread::ThreadId, i64>>,
    /// densities announce unrecoverable faults in the event stream (off for the sequential reference)
    pub announce: bool,
    /// every chain starts from the same fixed point (the chains then differ only through their own random streams)
    pub const_init: bool,
    pub fatal_sleep_ms: u64,
}

impl Model for TestModel {
    type Math<'m> = CpuMath<TestLogp>;

    fn math<R: Rng + ?Sized>(&self, rng: &mut R) -> anyhow::Result<Self::Math<'_>> {
        let tag = rng.next_u64();
        let chain = *self.tags.get(&tag).unwrap_or(&-2);
        self.last_chain.lock().unwrap().insert(std::thread::current().id(), chain);
        if self.math_fail.contains(&chain) {
            anyhow::bail!("injected model construction failure for chain {chain}");
        }
        let mut lp = self.template.clone();
        if let Some(f) = self.faults.get(&chain) {
            lp.faults = f.clone();
        }
        if let Some(d) = self.delays.get(&chain) {
            lp.delay_us = *d;
        }
        if self.announce {
            lp.announce = Some(chain);
            lp.fatal_sleep_ms = self.fatal_sleep_ms;
        }
        Ok(CpuMath::new(lp))
    }

    fn init_position<R: Rng + ?Sized>(&self, _rng: &mut R, position: &mut [f64]) -> anyhow::Result<()> {
        let chain = *self
            .last_chain
            .lock()
            .unwrap()
            .get(&std::thread::current().id())
            .unwrap_or(&-2);
        if self.init_fail.contains(&chain) {
            anyhow::bail!("injected init_position failure for chain {chain}");
        }
        if self.const_init {
            position.copy_from_slice(&self.init);
            return Ok(());
        }
        // like a real model: the start point comes from the chain's own random stream
        for (p, base) in position.iter_mut().zip(self.init.iter()) {
            let u = (_rng.next_u64() >> 11) as f64 / (1u64 << 53) as f64;
            *p = base + (u - 0.5);
        }
        Ok(())
    }
}

pub fn stream_tag(seed: u64, stream: u64) -> u64 {
    let mut rng = ChaCha8Rng::seed_from_u64(seed);
    rng.set_stream(stream);
    rng.next_u64()
}

// ---------------------------------------------------------------- storage
pub fn hash_record(stats: &[(&str, Option<Value>)], draws: &[(&str, Option<Value>)]) -> String {
    let mut h: u64 = 0xcbf29ce484222325;
    let mut feed = |s: &str| {
        for b in s.as_bytes() {
            h ^= *b as u64;
            h = h.wrapping_mul(0x100000001b3);
        }
    };
    for (n, v) in stats.iter().chain(draws.iter()) {
        feed(n);
        match v {
            None => feed("~"),
            Some(v) => feed(&value_to_json(v).to_string()),
        }
    }
    format!("{h:016x}")
}

#[derive(Clone, Default)]
pub struct RecConfig {
    pub storage_faults: Vec<(u64, u64)>,
    /// every record takes this long (the chain holds its trace lock meanwhile; C10: snapshots taken while chains record)
    pub rec_delay_us: u64,
}
pub struct RecTrace {
    cfg: RecConfig,
}
pub struct RecChain {
    chain: u64,
    cfg: RecConfig,
    log: Vec<String>,
}

impl StorageConfig for RecConfig {
    type Storage = RecTrace;
    fn new_trace<M: Math>(self, _settings: &impl Settings, _math: &M) -> anyhow::Result<RecTrace> {
        Ok(RecTrace { cfg: self })
    }
}
impl TraceStorage for RecTrace {
    type ChainStorage = RecChain;
    type Finalized = Vec<Option<Vec<String>>>;
    fn initialize_trace_for_chain(&self, chain_id: u64) -> anyhow::Result<RecChain> {
        Ok(RecChain { chain: chain_id, cfg: self.cfg.clone(), log: vec![] })
    }
    fn finalize(
        self,
        traces: Vec<anyhow::Result<(u64, Vec<String>)>>,
    ) -> anyhow::Result<(Option<anyhow::Error>, Self::Finalized)> {
        collect(traces.into_iter().map(|t| t.map(Some)).collect())
    }
    fn inspect(
        &self,
        traces: Vec<anyhow::Result<Option<(u64, Vec<String>)>>>,
    ) -> anyhow::Result<(Option<anyhow::Error>, Self::Finalized)> {
        collect(traces)
    }
}
fn collect(
    traces: Vec<anyhow::Result<Option<(u64, Vec<String>)>>>,
) -> anyhow::Result<(Option<anyhow::Error>, Vec<Option<Vec<String>>>)> {
    let mut out: Vec<Option<Vec<String>>> = vec![];
    let mut err = None;
    for t in traces {
        match t {
            Ok(Some((c, log))) => {
                while out.len() <= c as usize {
                    out.push(None);
                }
                out[c as usize] = Some(log);
            }
            Ok(None) => {}
            Err(e) => err = Some(e),
        }
    }
    Ok((err, out))
}
impl ChainStorage for RecChain {
    type Finalized = (u64, Vec<String>);
    fn record_sample(
        &mut self,
        _settings: &impl Settings,
        stats: Vec<(&str, Option<Value>)>,
        draws: Vec<(&str, Option<Value>)>,
        _info: &Progress,
    ) -> anyhow::Result<()> {
        let k = self.log.len() as u64;
        if self.cfg.storage_faults.contains(&(self.chain, k)) {
            anyhow::bail!("injected storage failure for chain {} at draw {}", self.chain, k);
        }
        if self.cfg.rec_delay_us > 0 {
            std::thread::sleep(Duration::from_micros(self.cfg.rec_delay_us));
        }
        self.log.push(hash_record(&stats, &draws));
        Ok(())
    }
    fn finalize(self) -> anyhow::Result<Self::Finalized> {
        Ok((self.chain, self.log))
    }
    fn inspect(&self) -> anyhow::Result<Option<Self::Finalized>> {
        Ok(Some((self.chain, self.log.clone())))
    }
    fn flush(&self) -> anyhow::Result<()> {
        // Sampler::flush must reach the storage of every chain (also of one that has already recorded its last draw)
        uemit(json!({"ev": "st_flush", "i": self.chain}));
        Ok(())
    }
}

// ---------------------------------------------------------------- reference run
/// Run chain `i` alone exactly as ChainProcess::start does; returns (position hashes, record hashes)
pub fn reference_chain<S: Settings>(settings: &S, model: &TestModel, chain_id: u64, draws: usize) -> (Vec<String>, Vec<String>) {
    let mut rng = ChaCha8Rng::seed_from_u64(settings.seed());
    rng.set_stream(chain_id + 1);
    let logp = model.math(&mut rng).expect("reference model");
    let dim = logp.dim();
    let mut sampler = settings.new_chain(chain_id, logp, &mut rng);
    let mut initval = vec![0f64; dim];
    let mut pos_h = vec![];
    let mut rec_h = vec![];
    // up to 500 initialisation attempts, like the chain task
    let mut ok = false;
    for _ in 0..500 {
        model.init_position(&mut rng, &mut initval).expect("reference init");
        if sampler.set_position(&initval).is_ok() {
            ok = true;
            break;
        }
    }
    if !ok {
        return (pos_h, rec_h);
    }
    for _ in 0..draws {
        let r = std::panic::catch_unwind(std::panic::AssertUnwindSafe(|| sampler.expanded_draw()));
        let Ok(Ok((point, mut draw_data, mut stats, _info))) = r else { break };
        let math = sampler.math();
        let dims = StatsDims::from(math.deref());
        let h = hash_record(&stats.get_all(&dims), &draw_data.get_all(math.deref()));
        pos_h.push(verif::hash_f64s(&point));
        rec_h.push(h);
    }
    (pos_h, rec_h)
}

/// value of the fault counter when the current scenario started
static FATAL_BASE: std::sync::atomic::AtomicU64 = std::sync::atomic::AtomicU64::new(0);

fn uemit(ev: J) {
    verif::emit("sampler", move || ev);
}

/// The scripted user thread.
fn run_user<F: Send + 'static>(
    mut sampler: Sampler<Vec<Option<Vec<String>>>>,
    script: Vec<J>,
    _marker: std::marker::PhantomData<F>,
) -> J {
    let mut final_trace: Option<Vec<Option<Vec<String>>>> = None;
    let mut outcome = json!({"res": "script_ended_without_terminal_call"});
    let mut it = script.into_iter();
    while let Some(op) = it.next() {
        let name = op["op"].as_str().unwrap_or("").to_string();
        match name.as_str() {
            "sleep" => std::thread::sleep(Duration::from_micros(op["us"].as_u64().unwrap_or(100))),
            "wait_fatal" => {
                // until a density has announced an unrecoverable fault in this run (at most `ms`)
                let base = op["base"].as_u64().unwrap_or(0);
                let t0 = Instant::now();
                while crate::density::FATAL_FIRED.load(std::sync::atomic::Ordering::SeqCst) <= base + FATAL_BASE.load(std::sync::atomic::Ordering::SeqCst)
                    && t0.elapsed() < Duration::from_millis(op["ms"].as_u64().unwrap_or(3000))
                {
                    std::thread::sleep(Duration::from_micros(200));
                }
            }
            "pause" | "resume" | "flush" => {
                uemit(json!({"ev": "u_call", "cmd": name}));
                let r = match name.as_str() {
                    "pause" => sampler.pause(),
                    "resume" => sampler.resume(),
                    _ => sampler.flush(),
                };
                uemit(json!({"ev": "u_ret", "cmd": name, "ok": r.is_ok()}));
            }
            "progress" => {
                uemit(json!({"ev": "u_call", "cmd": "progress"}));
                let r = sampler.progress();
                match r {
                    Ok(p) => uemit(json!({"ev": "u_ret", "cmd": "progress", "ok": true,
                        "finished": p.iter().map(|c| c.finished_draws).collect::<Vec<_>>(),
                        "divergences": p.iter().map(|c| c.divergences).collect::<Vec<_>>(),
                        "steps": p.iter().map(|c| c.total_num_steps).collect::<Vec<_>>(),
                        "started": p.iter().map(|c| c.started).collect::<Vec<_>>()})),
                    Err(_) => uemit(json!({"ev": "u_ret", "cmd": "progress", "ok": false})),
                }
            }
            "inspect" => {
                uemit(json!({"ev": "u_call", "cmd": "inspect"}));
                let r = sampler.inspect();
                match r {
                    Ok((e, t)) => uemit(json!({"ev": "u_ret", "cmd": "inspect", "ok": true, "err": e.is_some(),
                        "lens": t.iter().map(|c| c.as_ref().map(|v| v.len())).collect::<Vec<_>>(), "trace": t})),
                    Err(_) => uemit(json!({"ev": "u_ret", "cmd": "inspect", "ok": false})),
                }
            }
            "wait" => {
                uemit(json!({"ev": "u_call", "cmd": "wait"}));
                let ms = op["ms"].as_u64().unwrap_or(10);
                // "max": wait without a practical limit (the largest Duration)
                let timeout = if op["max"] == true { Duration::MAX } else { Duration::from_millis(ms) };
                match sampler.wait_timeout(timeout) {
                    SamplerWaitResult::Timeout(s) => {
                        uemit(json!({"ev": "u_ret", "cmd": "wait", "res": "timeout"}));
                        sampler = s;
                    }
                    SamplerWaitResult::Trace(t) => {
                        uemit(json!({"ev": "u_ret", "cmd": "wait", "res": "trace"}));
                        final_trace = Some(t);
                        outcome = json!({"res": "trace"});
                        return json!({"outcome": outcome, "trace": final_trace});
                    }
                    SamplerWaitResult::Err(e, t) => {
                        uemit(json!({"ev": "u_ret", "cmd": "wait", "res": "err", "msg": format!("{e:#}")}));
                        outcome = json!({"res": "err", "msg": format!("{e:#}")});
                        return json!({"outcome": outcome, "trace": t});
                    }
                }
            }
            "abort" => {
                uemit(json!({"ev": "u_call", "cmd": "abort"}));
                match sampler.abort() {
                    Ok((e, t)) => {
                        uemit(json!({"ev": "u_ret", "cmd": "abort", "res": if e.is_some() {"errabort"} else {"okabort"},
                            "msg": e.as_ref().map(|e| format!("{e:#}"))}));
                        outcome = json!({"res": if e.is_some() {"errabort"} else {"okabort"}});
                        return json!({"outcome": outcome, "trace": t});
                    }
                    Err(e) => {
                        uemit(json!({"ev": "u_ret", "cmd": "abort", "res": "err", "msg": format!("{e:#}")}));
                        outcome = json!({"res": "err"});
                        return json!({"outcome": outcome, "trace": J::Null});
                    }
                }
            }
            _ => {}
        }
    }
    let _ = &mut final_trace;
    // no terminal call in the script: abort to clean up
    let _ = sampler.abort();
    json!({"outcome": outcome, "trace": J::Null})
}

fn run_one<S: Settings>(sc: &J) -> Vec<J> {
    let settings: S = match patched(&sc["settings"]) {
        Ok(s) => s,
        Err(e) => return vec![json!({"ev": "harness_error", "msg": e})],
    };
    let dim = sc["dim"].as_u64().unwrap_or(2) as usize;
    let nchains = settings.num_chains();
    let seed = settings.seed();
    let mut tags = HashMap::new();
    tags.insert(stream_tag(seed, 0), -1);
    for c in 0..nchains as u64 {
        tags.insert(stream_tag(seed, c + 1), c as i64);
    }
    let mut faults: HashMap<i64, HashMap<u64, FaultKind>> = HashMap::new();
    if let Some(fs) = sc["faults"].as_array() {
        for f in fs {
            let c = f[0].as_i64().unwrap();
            let k = f[1].as_u64().unwrap();
            let kind: FaultKind = serde_json::from_value(f[2].clone()).unwrap();
            faults.entry(c).or_default().insert(k, kind);
        }
    }
    let ids = |key: &str| -> Vec<i64> {
        sc[key].as_array().map(|a| a.iter().map(|x| x.as_i64().unwrap()).collect()).unwrap_or_default()
    };
    let mut delays = HashMap::new();
    if let Some(d) = sc["delays"].as_array() {
        for x in d {
            delays.insert(x[0].as_i64().unwrap(), x[1].as_u64().unwrap());
        }
    }
    let mk_model = || TestModel {
        template: TestLogp::new(kind_from_json(&sc["density"]), dim),
        init: vec![0.1; dim],
        tags: tags.clone(),
        faults: faults.clone(),
        math_fail: ids("math_fail"),
        init_fail: ids("init_fail"),
        delays: delays.clone(),
        last_chain: Mutex::new(HashMap::new()),
        announce: true,
        const_init: sc["const_init"] == true,
        fatal_sleep_ms: sc["fatal_sleep_ms"].as_u64().unwrap_or(0),
    };
    let total = settings.hint_num_tune() + settings.hint_num_draws();
    // sequential reference (no faults, no delays): Full(i)
    // density faults are part of the density (a function of the chain's own evaluation count), so the
    // reference keeps them; failures of the environment (model construction, init, storage) and speed are dropped
    let ref_model = TestModel { math_fail: vec![], init_fail: vec![], delays: HashMap::new(), announce: false, ..mk_model() };
    let mut full_pos = vec![];
    let mut full_rec = vec![];
    for c in 0..nchains as u64 {
        let (p, r) = reference_chain(&settings, &ref_model, c, total);
        full_pos.push(p);
        full_rec.push(r);
    }
    let storage_faults: Vec<(u64, u64)> = sc["storage_faults"]
        .as_array()
        .map(|a| a.iter().map(|x| (x[0].as_u64().unwrap(), x[1].as_u64().unwrap())).collect())
        .unwrap_or_default();
    let num_cores = sc["num_cores"].as_u64().unwrap_or(2) as usize;
    let script: Vec<J> = sc["script"].as_array().cloned().unwrap_or_default();

    // perturbing scheduler
    let sseed = sc["sched_seed"].as_u64().unwrap_or(0);
    let counter = Arc::new(AtomicU64::new(0));
    let amp = sc["sched_amp_us"].as_u64().unwrap_or(200);
    {
        let counter = counter.clone();
        verif::install_scheduler(Arc::new(move |point: &'static str, who: i64| {
            let n = counter.fetch_add(1, Ordering::Relaxed);
            let mut h = sseed ^ 0x9e3779b97f4a7c15u64.wrapping_mul(n + 1) ^ ((who as u64) << 32);
            for b in point.as_bytes() {
                h = (h ^ *b as u64).wrapping_mul(0x100000001b3);
            }
            h ^= h >> 29;
            h = h.wrapping_mul(0xbf58476d1ce4e5b9);
            h ^= h >> 32;
            match h % 4 {
                0 => std::thread::sleep(Duration::from_micros(h / 7 % (amp + 1))),
                1 => std::thread::yield_now(),
                _ => {}
            }
        }));
    }
    verif::install_global_sink(&["sampler"]);
    uemit(json!({"ev": "u_new", "chains": nchains, "cores": num_cores, "draws": total}));
    let model = mk_model();
    let rec_cfg = RecConfig { storage_faults: storage_faults.clone(), rec_delay_us: sc["rec_delay_us"].as_u64().unwrap_or(0) };
    let created = std::panic::catch_unwind(std::panic::AssertUnwindSafe(|| {
        // optional progress callback (runs on the controller thread between commands)
        let callback = sc["cb_rate_us"].as_u64().map(|us| nuts_rs::ProgressCallback {
            callback: Box::new(|elapsed: std::time::Duration, progress: Box<[nuts_rs::ChainProgress]>| {
                uemit(json!({"ev": "cb", "elapsed_us": elapsed.as_micros() as u64,
                    "finished": progress.iter().map(|p| p.finished_draws).collect::<Vec<_>>(),
                    "total": progress.iter().map(|p| p.total_draws).collect::<Vec<_>>(),
                    "divergences": progress.iter().map(|p| p.divergences).collect::<Vec<_>>(),
                    "steps": progress.iter().map(|p| p.total_num_steps).collect::<Vec<_>>(),
                    "started": progress.iter().map(|p| p.started).collect::<Vec<_>>()}));
            }),
            rate: std::time::Duration::from_micros(us),
        });
        FATAL_BASE.store(crate::density::FATAL_FIRED.load(std::sync::atomic::Ordering::SeqCst), std::sync::atomic::Ordering::SeqCst);
        Sampler::new(model, settings, rec_cfg, num_cores, callback)
    }));
    let mut result = J::Null;
    match created {
        Ok(Ok(sampler)) => {
            let (tx, rx) = std::sync::mpsc::channel();
            let handle = std::thread::spawn(move || {
                let r = std::panic::catch_unwind(std::panic::AssertUnwindSafe(|| {
                    run_user::<()>(sampler, script, std::marker::PhantomData)
                }));
                let _ = tx.send(());
                r
            });
            match rx.recv_timeout(Duration::from_secs(20)) {
                Ok(()) => match handle.join() {
                    Ok(Ok(v)) => result = v,
                    Ok(Err(p)) => {
                        uemit(json!({"ev": "u_panic", "msg": panic_msg(&p)}));
                        result = json!({"outcome": {"res": "panic", "msg": panic_msg(&p)}});
                    }
                    Err(_) => result = json!({"outcome": {"res": "panic"}}),
                },
                Err(_) => {
                    // the user thread is stuck: a call did not return
                    uemit(json!({"ev": "u_hang"}));
                    result = json!({"outcome": {"res": "hang"}});
                }
            }
        }
        Ok(Err(e)) => result = json!({"outcome": {"res": "new_err", "msg": format!("{e:#}")}}),
        Err(p) => result = json!({"outcome": {"res": "new_panic", "msg": panic_msg(&p)}}),
    }
    // a sampler dropped by wait_timeout (Err result) finishes on detached threads: wait until its
    // controller has finalized and every chain task has reported, so no event leaks into the next run
    let t0 = std::time::Instant::now();
    loop {
        let quiet = verif::with_global_sink(|evs| {
            let fin = evs.iter().any(|e| e["ev"] == "ctl_finalized");
            let started = evs.iter().filter(|e| e["ev"] == "ch_start").count();
            let done = evs.iter().filter(|e| e["ev"] == "ch_result").count();
            fin && started == done
        })
        .unwrap_or(true);
        if quiet || t0.elapsed() > Duration::from_secs(3) {
            break;
        }
        std::thread::sleep(Duration::from_millis(1));
    }
    std::thread::sleep(Duration::from_millis(2));
    let mut evs = verif::take_global_sink();
    verif::remove_scheduler();
    evs.insert(0, json!({"ev": "reference", "full_pos": full_pos, "full_rec": full_rec}));
    evs.push(json!({"ev": "final", "result": result}));
    evs
}

pub fn main(args: &[String]) -> i32 {
    let inp = std::fs::File::open(&args[0]).expect("open scenarios");
    let scenarios: Vec<J> = std::io::BufReader::new(inp)
        .lines()
        .map(|l| l.unwrap())
        .filter(|l| !l.trim().is_empty())
        .map(|l| serde_json::from_str(&l).expect("scenario json"))
        .collect();
    std::panic::set_hook(Box::new(|_| {}));
    let mut out = std::io::BufWriter::new(std::fs::File::create(&args[1]).expect("create out"));
    for (i, sc) in scenarios.iter().enumerate() {
        let evs = match sc["preset"].as_str().unwrap_or("diag_nuts") {
            "lowrank_nuts" => run_one::<LowRankNutsSettings>(sc),
            "diag_mclmc" => run_one::<DiagMclmcSettings>(sc),
            _ => run_one::<DiagNutsSettings>(sc),
        };
        writeln!(out, "{}", json!({"ev": "reset", "run": i, "scenario": sc})).unwrap();
        for ev in evs {
            writeln!(out, "{ev}").unwrap();
        }
    }
    0
}
