//! code -> spec: run real chains through the public API with hooks on and write the raw
//! event log (hook events + harness events) as NDJSON, one `reset` line per scenario.

use std::io::{BufRead, Write};
use std::ops::Deref;

use nuts_rs::rand::SeedableRng;
use nuts_rs::rand::rngs::ChaCha8Rng;
use nuts_rs::verif::{self, StatsDims};
use nuts_rs::{
    Chain, CpuMath, DiagMclmcSettings, DiagNutsSettings, FlowMclmcSettings, FlowNutsSettings,
    LowRankMclmcSettings, LowRankNutsSettings, Settings, Storable, Value,
};
use serde_json::{Value as J, json};

use crate::density::{FaultKind, TestLogp, kind_from_json};

pub fn bits(x: f64) -> String {
    format!("{:016x}", x.to_bits())
}

pub fn value_to_json(v: &Value) -> J {
    match v {
        Value::U64(x) => json!({"t": "u64", "n": x.len(), "v": x}),
        Value::I64(x) => json!({"t": "i64", "n": x.len(), "v": x}),
        Value::F64(x) => json!({"t": "f64", "n": x.len(), "v": x.iter().map(|f| bits(*f)).collect::<Vec<_>>(),
            "fin": x.iter().all(|f| f.is_finite())}),
        Value::F32(x) => json!({"t": "f32", "n": x.len(), "v": x.iter().map(|f| format!("{:08x}", f.to_bits())).collect::<Vec<_>>()}),
        Value::Bool(x) => json!({"t": "bool", "n": x.len(), "v": x}),
        Value::ScalarString(x) => json!({"t": "string", "n": 1, "v": x, "scalar": true}),
        Value::DateTime64(_, x) => json!({"t": "datetime", "n": x.len(), "v": x}),
        Value::TimeDelta64(_, x) => json!({"t": "timedelta", "n": x.len(), "v": x}),
        Value::ScalarU64(x) => json!({"t": "u64", "n": 1, "v": x, "scalar": true}),
        Value::ScalarI64(x) => json!({"t": "i64", "n": 1, "v": x, "scalar": true}),
        Value::ScalarF64(x) => json!({"t": "f64", "n": 1, "v": bits(*x), "scalar": true, "fin": x.is_finite(), "f": if x.is_finite() {json!(x)} else {J::Null}}),
        Value::ScalarF32(x) => json!({"t": "f32", "n": 1, "v": format!("{:08x}", x.to_bits()), "scalar": true}),
        Value::ScalarBool(x) => json!({"t": "bool", "n": 1, "v": x, "scalar": true}),
        Value::Strings(x) => json!({"t": "string", "n": x.len(), "v": x}),
    }
}

pub fn merge_json(base: &mut J, patch: &J) {
    match (base, patch) {
        (J::Object(b), J::Object(p)) => {
            for (k, v) in p {
                merge_json(b.entry(k.clone()).or_insert(J::Null), v);
            }
        }
        (b, p) => *b = p.clone(),
    }
}

pub fn patched<S: Settings>(patch: &J) -> Result<S, String> {
    let mut base = serde_json::to_value(S::default()).map_err(|e| e.to_string())?;
    merge_json(&mut base, patch);
    serde_json::from_value(base).map_err(|e| e.to_string())
}

fn emit(ev: J) {
    verif::emit("h", move || ev);
}

fn schema_event<S: Settings>(settings: &S, math: &CpuMath<TestLogp>) -> J {
    let types: Vec<J> = settings
        .stat_types(math)
        .into_iter()
        .map(|(n, t)| json!([n, format!("{t:?}")]))
        .collect();
    let dims: Vec<J> = settings.stat_dims_all(math).into_iter().map(|(n, d)| json!([n, d])).collect();
    let evd: Vec<J> = settings.stat_event_dims(math).into_iter().map(|(n, d)| json!([n, d])).collect();
    let sizes = settings.stat_dim_sizes(math);
    json!({"ev": "schema", "names": settings.stat_names(math), "types": types, "dims": dims,
        "event_dims": evd, "dim_sizes": sizes, "num_tune": settings.hint_num_tune(),
        "num_draws": settings.hint_num_draws(), "sampler": settings.sampler_name(),
        "adaptation": settings.adaptation_name(),
        "settings": serde_json::to_value(settings).unwrap_or(J::Null)})
}

/// Run one chain; all events go to the thread-local sink.
pub fn run_chain<S: Settings>(sc: &J) -> Result<(), String> {
    let settings: S = patched(&sc["settings"])?;
    let dim = sc["dim"].as_u64().unwrap_or(2) as usize;
    let mut logp = TestLogp::new(kind_from_json(&sc["density"]), dim);
    logp.own_dims_only = sc["own_dims"] == true;
    logp.log_evals = sc["log_evals"].as_bool().unwrap_or(false);
    if let Some(fs) = sc["faults"].as_array() {
        for f in fs {
            let k = f[0].as_u64().unwrap();
            let kind: FaultKind = serde_json::from_value(f[1].clone()).map_err(|e| e.to_string())?;
            logp.faults.insert(k, kind);
        }
    }
    let math = CpuMath::new(logp);
    emit(schema_event(&settings, &math));
    let seed = sc["seed"].as_u64().unwrap_or(0);
    let chain_id = sc["chain"].as_u64().unwrap_or(0);
    let mut rng = ChaCha8Rng::seed_from_u64(seed);
    rng.set_stream(chain_id + 1);
    // the outer RNG records every 32-byte seed it hands out (C04: locating the momentum in the chain's stream)
    let mut rng = crate::momentum::SeedTap { inner: rng, seeds: vec![] };
    let created = std::panic::catch_unwind(std::panic::AssertUnwindSafe(|| {
        settings.new_chain(chain_id, math, &mut rng)
    }));
    let mut chain = match created {
        Ok(c) => c,
        Err(p) => {
            emit(json!({"ev": "new_chain", "ok": false, "panic": panic_msg(&p)}));
            return Ok(());
        }
    };
    emit(json!({"ev": "new_chain", "ok": true}));
    emit(json!({"ev": "rng_seeds", "seeds": rng.seeds.iter()
        .map(|s| s.iter().map(|b| format!("{b:02x}")).collect::<String>()).collect::<Vec<_>>()}));
    let init: Vec<f64> = match sc["init"].as_array() {
        Some(a) => a.iter().map(|x| x.as_f64().unwrap()).collect(),
        None => vec![0.1; dim],
    };
    // like the parallel sampler, a failed initialisation may be retried on the same chain object
    let retries = if sc["retry_init"] == true { 3 } else { 0 };
    let mut attempt = 0;
    loop {
        let r = std::panic::catch_unwind(std::panic::AssertUnwindSafe(|| chain.set_position(&init)));
        match r {
            Ok(Ok(())) => {
                emit(json!({"ev": "set_position", "res": "ok"}));
                break;
            }
            Ok(Err(e)) => {
                emit(json!({"ev": "set_position", "res": "err", "msg": format!("{e:#}")}));
                if attempt >= retries {
                    return Ok(());
                }
                attempt += 1;
            }
            Err(p) => {
                emit(json!({"ev": "set_position", "res": "panic", "msg": panic_msg(&p)}));
                return Ok(());
            }
        }
    }
    let total = sc["draws"]
        .as_u64()
        .unwrap_or((settings.hint_num_tune() + settings.hint_num_draws()) as u64);
    for n in 0..total {
        if verif::local_sink_len() > 1_500_000 {
            emit(json!({"ev": "truncated", "n": n}));
            break;
        }
        let r = std::panic::catch_unwind(std::panic::AssertUnwindSafe(|| chain.expanded_draw()));
        match r {
            Ok(Ok((pos, _expanded, mut stats, progress))) => {
                let m = chain.math();
                let dims = StatsDims::from(m.deref());
                let all = stats.get_all(&dims);
                let st: Vec<J> = all
                    .iter()
                    .map(|(name, v)| json!([name, v.as_ref().map(value_to_json)]))
                    .collect();
                emit(json!({"ev": "draw_out", "n": n, "res": "ok",
                    "ph": verif::hash_f64s(&pos), "finite": pos.iter().all(|x| x.is_finite()),
                    "pos": if dim <= 4 { json!(pos.iter().map(|x| bits(*x)).collect::<Vec<_>>()) } else { J::Null },
                    "progress": {"draw": progress.draw, "chain": progress.chain, "diverging": progress.diverging,
                        "tuning": progress.tuning, "step_size": bits(progress.step_size),
                        "step_size_f": if progress.step_size.is_finite() { json!(progress.step_size) } else { J::Null },
                        "num_steps": progress.num_steps},
                    "stats": st}));
            }
            Ok(Err(e)) => {
                emit(json!({"ev": "draw_out", "n": n, "res": "err", "msg": format!("{e:#}")}));
                break;
            }
            Err(p) => {
                emit(json!({"ev": "draw_out", "n": n, "res": "panic", "msg": panic_msg(&p)}));
                break;
            }
        }
    }
    Ok(())
}

pub fn panic_msg(p: &Box<dyn std::any::Any + Send>) -> String {
    if let Some(s) = p.downcast_ref::<&str>() {
        s.to_string()
    } else if let Some(s) = p.downcast_ref::<String>() {
        s.clone()
    } else {
        "panic".to_string()
    }
}

pub fn run_scenario(sc: &J) -> Vec<J> {
    verif::install_local_sink();
    let preset = sc["preset"].as_str().unwrap_or("diag_nuts");
    let r = match preset {
        "diag_nuts" => run_chain::<DiagNutsSettings>(sc),
        "lowrank_nuts" => run_chain::<LowRankNutsSettings>(sc),
        "flow_nuts" => run_chain::<FlowNutsSettings>(sc),
        "diag_mclmc" => run_chain::<DiagMclmcSettings>(sc),
        "lowrank_mclmc" => run_chain::<LowRankMclmcSettings>(sc),
        "flow_mclmc" => run_chain::<FlowMclmcSettings>(sc),
        _ => Err(format!("unknown preset {preset}")),
    };
    let mut evs = verif::take_local_sink();
    if let Err(e) = r {
        evs.push(json!({"ev": "harness_error", "msg": e}));
    }
    if sc["momentum"] == true {
        let seeds: Vec<[u8; 32]> = evs.iter().filter(|e| e["ev"] == "rng_seeds").flat_map(|e| {
            e["seeds"].as_array().unwrap().iter().map(|h| {
                let h = h.as_str().unwrap();
                let mut s = [0u8; 32];
                for i in 0..32 {
                    s[i] = u8::from_str_radix(&h[2 * i..2 * i + 2], 16).unwrap();
                }
                s
            }).collect::<Vec<_>>()
        }).collect();
        crate::momentum::annotate(&mut evs, &seeds);
        // keep the log small: only what the momentum trace needs
        evs.retain(|e| matches!(e["ev"].as_str().unwrap_or(""), "momentum" | "leap" | "draw_out" | "set_position" | "new_chain" | "traj_init" | "harness_error" | "truncated" | "search_start" | "search_end"));
    } else {
        // the velocity vectors are only needed for the momentum trace
        for e in evs.iter_mut() {
            if e["ev"] == "momentum" {
                e.as_object_mut().unwrap().remove("v");
            }
        }
    }
    evs
}

/// `vh record-chains <scenarios.ndjson> <out.ndjson>`: one scenario per input line.
pub fn main(args: &[String]) -> i32 {
    let inp = std::fs::File::open(&args[0]).expect("open scenarios");
    let scenarios: Vec<J> = std::io::BufReader::new(inp)
        .lines()
        .map(|l| l.unwrap())
        .filter(|l| !l.trim().is_empty())
        .map(|l| serde_json::from_str(&l).expect("scenario json"))
        .collect();
    std::panic::set_hook(Box::new(|_| {}));
    let threads = std::env::var("VH_THREADS").ok().and_then(|s| s.parse().ok()).unwrap_or(8usize);
    let n = scenarios.len();
    let next = std::sync::atomic::AtomicUsize::new(0);
    // every finished run is written out (one contiguous block, in order of completion) and dropped at once: the event
    // values of a long run take gigabytes as JSON trees
    let out = std::sync::Mutex::new(std::io::BufWriter::new(std::fs::File::create(&args[1]).expect("create out")));
    std::thread::scope(|s| {
        for _ in 0..threads.min(n.max(1)) {
            s.spawn(|| {
                loop {
                    let i = next.fetch_add(1, std::sync::atomic::Ordering::SeqCst);
                    if i >= n {
                        break;
                    }
                    let evs = run_scenario(&scenarios[i]);
                    let mut text = String::with_capacity(evs.len() * 256);
                    text.push_str(&json!({"ev": "reset", "run": i, "scenario": scenarios[i]}).to_string());
                    text.push('\n');
                    for ev in evs {
                        text.push_str(&ev.to_string());
                        text.push('\n');
                    }
                    let mut o = out.lock().unwrap();
                    o.write_all(text.as_bytes()).unwrap();
                }
            });
        }
    });
    out.lock().unwrap().flush().unwrap();
    0
}
