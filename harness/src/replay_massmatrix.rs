//! C08 binding: the histories of MassMatrixUpdate.tla (value classes per coordinate and window) and the
//! Gaussian windows of MassMatrixGauss.tla, executed on the real estimators
//! (`DiagAdaptStrategy`, `LowRankMassMatrixStrategy`) and transformations.

use std::io::{BufRead, Write};

use nuts_rs::verif::{self, DiagAdaptStrategy, Hamiltonian, LowRankMassMatrixStrategy, MassMatrixAdaptStrategy, TransformedHamiltonian};
use nuts_rs::{CpuMath, DiagAdaptExpSettings, KineticEnergyKind, LowRankSettings};
use serde_json::{Value as J, json};

use crate::replay_lattice::QuadLogp;

type M = CpuMath<QuadLogp>;

fn fb(j: &J) -> f64 {
    f64::from_bits(u64::from_str_radix(j.as_str().unwrap(), 16).unwrap())
}
fn fbv(j: &J) -> Vec<f64> {
    j.as_array().unwrap().iter().map(fb).collect()
}
fn close(a: f64, b: f64, rel: f64) -> bool {
    (a - b).abs() <= rel * a.abs().max(b.abs())
}

struct Lcg(u64);
impl Lcg {
    fn next(&mut self) -> f64 {
        self.0 = self.0.wrapping_mul(6364136223846793005).wrapping_add(1442695040888963407);
        // in [-1, -0.1] u [0.1, 1], never tiny
        let u = ((self.0 >> 11) as f64) / ((1u64 << 53) as f64);
        let v = 0.1 + 0.9 * u;
        if (self.0 >> 7) & 1 == 1 { v } else { -v }
    }
}

/// one column (coordinate) of a window with the given variance class
fn column(cls: &str, n: usize, rng: &mut Lcg, center: f64) -> Vec<f64> {
    let z: Vec<f64> = (0..n).map(|_| rng.next()).collect();
    match cls {
        "ok" => z.iter().map(|v| center + 0.7 * v).collect(),
        "const" => vec![0.75; n],
        "tiny" => z.iter().map(|v| 1e-30 * v).collect(),
        "huge" => z.iter().map(|v| 1e30 * v).collect(),
        "ovf" => z.iter().map(|v| 1e170 * v).collect(),
        "nan" => {
            let mut c: Vec<f64> = z.iter().map(|v| center + 0.7 * v).collect();
            c[n / 2] = f64::NAN;
            c
        }
        "inf" => {
            let mut c: Vec<f64> = z.iter().map(|v| center + 0.7 * v).collect();
            c[n - 1 - n / 3] = f64::INFINITY;
            c
        }
        _ => panic!("class {cls}"),
    }
}

fn init_grad(cls: &str) -> f64 {
    match cls {
        "ok" => -0.37,
        "zero" => 0.0,
        "tiny" => 1e-30,
        "huge" => -1e30,
        "inf" => f64::NEG_INFINITY,
        "nan" => f64::NAN,
        _ => panic!("init class {cls}"),
    }
}

/// the running estimator's accumulator: sum over k of (x_k - mean_{k-1})^2 (not the centred sum of squares;
/// draws and gradients are accumulated the same way, so the ratio used by the gradient-based rule is unaffected)
fn welford(col: &[f64]) -> (f64, f64) {
    let mut mean = col[0];
    let mut var = 0.0;
    for (k, x) in col.iter().enumerate().skip(1) {
        let diff = x - mean;
        mean += diff * ((k + 1) as f64).recip();
        var += diff * diff;
    }
    (mean, var)
}

fn two_pass(col: &[f64]) -> f64 {
    let n = col.len() as f64;
    let mean = col.iter().sum::<f64>() / n;
    col.iter().map(|v| (v - mean) * (v - mean)).sum::<f64>() / n
}

struct Scales {
    stds: Vec<f64>,
    inv_stds: Vec<f64>,
    logdet: f64,
    id: i64,
    inner_n: Option<u64>,
    vals_sqrt: Vec<f64>,
    vals_sqrt_inv: Vec<f64>,
}

fn scales_of(d: &J) -> Scales {
    let inner = &d["inner"];
    Scales {
        stds: fbv(&d["stds"]),
        inv_stds: fbv(&d["inv_stds"]),
        logdet: fb(&d["logdet"]),
        id: d["id"].as_i64().unwrap(),
        inner_n: inner["n"].as_u64(),
        vals_sqrt: if inner.is_object() { fbv(&inner["vals_sqrt"]) } else { vec![] },
        vals_sqrt_inv: if inner.is_object() { fbv(&inner["vals_sqrt_inv"]) } else { vec![] },
    }
}

/// "every scale of the transformation in use remains finite and strictly positive and its
/// log-determinant finite"
fn never_degenerate(s: &Scales, what: &str) -> Result<(), String> {
    for (i, (a, b)) in s.stds.iter().zip(&s.inv_stds).enumerate() {
        if !(a.is_finite() && *a > 0.0) {
            return Err(format!("degenerate: scale[{i}] = {a} {what}"));
        }
        if !(b.is_finite() && *b > 0.0) {
            return Err(format!("degenerate: inverse scale[{i}] = {b} {what}"));
        }
        if !close(a * b, 1.0, 1e-12) {
            return Err(format!("degenerate: scale[{i}] * inverse scale = {} {what}", a * b));
        }
    }
    for (i, (a, b)) in s.vals_sqrt.iter().zip(&s.vals_sqrt_inv).enumerate() {
        if !(a.is_finite() && *a > 0.0 && b.is_finite() && *b > 0.0) {
            return Err(format!("degenerate: eigen scale[{i}] = {a} / {b} {what}"));
        }
    }
    if !s.logdet.is_finite() {
        return Err(format!("degenerate: log-determinant {} {what}", s.logdet));
    }
    Ok(())
}

fn want_number(kind: &str) -> Option<f64> {
    match kind {
        "lo" => Some(1e-10),
        "hi" => Some(1e10),
        "fill" => Some(1.0),
        _ => None,
    }
}

fn history_case(c: &J, seed: u64, stat: &mut [usize; 4]) -> Result<usize, String> {
    let rule = c["rule"].as_str().unwrap();
    let hist = c["hist"].as_array().unwrap();
    let dim = hist[0]["g"].as_array().unwrap().len();
    let mut math = CpuMath::new(QuadLogp { p: vec![vec![0.0; dim]; dim], m: vec![0.0; dim], quartic: 0.0 });
    let mut rng = Lcg(seed ^ 0x9e3779b97f4a7c15);
    let mut chacha = <nuts_rs::rand::rngs::ChaCha8Rng as nuts_rs::rand::SeedableRng>::seed_from_u64(1);
    let mut checks = 0usize;
    // scales after each step (index = src of the tokens)
    let mut after: Vec<Vec<f64>> = vec![];
    let ones = vec![1.0; dim];
    let zeros = vec![0.0; dim];
    let mut diag = verif::diag_mass_matrix(&mut math, &ones, &zeros);
    let mut lowr = verif::low_rank_mass_matrix(&mut math);
    let lowrank = rule == "lowrank";
    let dsettings = DiagAdaptExpSettings { store_mass_matrix: true, use_grad_based_estimate: rule == "draw_grad" };
    for (step, h) in hist.iter().enumerate() {
        let want = h["want"].as_array().unwrap();
        let before = if lowrank { scales_of(&lowr.verif_dump(&mut math)) } else { scales_of(&verif::diag_dump(&mut math, &diag)) };
        let mut est: Vec<Option<f64>> = vec![None; dim];
        let what = format!("rule={rule} step={step} {}", h);
        if h["op"] == "init" {
            let g: Vec<f64> = h["g"].as_array().unwrap().iter().map(|x| init_grad(x.as_str().unwrap())).collect();
            let pos: Vec<f64> = (0..dim).map(|i| 0.25 * i as f64).collect();
            if lowrank {
                let mut s = LowRankMassMatrixStrategy::new(dim, LowRankSettings::default());
                verif::mm_init(&mut math, &mut s, &mut lowr, &pos, &g, &mut chacha).map_err(|e| format!("init failed: {e} {what}"))?;
            } else {
                let mut s = <DiagAdaptStrategy<M> as MassMatrixAdaptStrategy<M>>::new(&mut math, dsettings, 100, 0);
                verif::mm_init(&mut math, &mut s, &mut diag, &pos, &g, &mut chacha).map_err(|e| format!("init failed: {e} {what}"))?;
            }
            for i in 0..dim {
                est[i] = Some(g[i].abs().recip().sqrt());
            }
        } else {
            let n = h["n"].as_u64().unwrap() as usize;
            let dc: Vec<&str> = h["d"].as_array().unwrap().iter().map(|x| x.as_str().unwrap()).collect();
            let gc: Vec<&str> = h["g"].as_array().unwrap().iter().map(|x| x.as_str().unwrap()).collect();
            let dcols: Vec<Vec<f64>> = (0..dim).map(|i| column(dc[i], n, &mut rng, 1.5 - i as f64)).collect();
            let gcols: Vec<Vec<f64>> = (0..dim).map(|i| column(gc[i], n, &mut rng, 0.3)).collect();
            for i in 0..dim {
                let (_, dv) = welford(&dcols[i]);
                let (_, gv) = welford(&gcols[i]);
                est[i] = Some(match rule {
                    "draw" => (dv / n as f64).sqrt(),
                    "draw_grad" => (dv / gv).sqrt().sqrt(),
                    // the low-rank estimator rescales by the plain two-pass variances of the window
                    _ => (two_pass(&dcols[i]) / two_pass(&gcols[i])).sqrt().sqrt(),
                });
            }
            if lowrank {
                let mut s = LowRankMassMatrixStrategy::new(dim, LowRankSettings::default());
                for j in 0..n {
                    let d: Vec<f64> = (0..dim).map(|i| dcols[i][j]).collect();
                    let g: Vec<f64> = (0..dim).map(|i| gcols[i][j]).collect();
                    verif::mm_feed(&mut math, &mut s, &d, &g, true);
                }
                let changed = <LowRankMassMatrixStrategy as MassMatrixAdaptStrategy<M>>::adapt(&s, &mut math, &mut lowr);
                if changed != (n >= 3) {
                    return Err(format!("adapt() returned {changed} for a window of {n} draws {what}"));
                }
            } else {
                let mut s = <DiagAdaptStrategy<M> as MassMatrixAdaptStrategy<M>>::new(&mut math, dsettings, 100, 0);
                for j in 0..n {
                    let d: Vec<f64> = (0..dim).map(|i| dcols[i][j]).collect();
                    let g: Vec<f64> = (0..dim).map(|i| gcols[i][j]).collect();
                    verif::mm_feed(&mut math, &mut s, &d, &g, true);
                }
                let changed = s.adapt(&mut math, &mut diag);
                if changed != (n >= 3) {
                    return Err(format!("adapt() returned {changed} for a window of {n} draws {what}"));
                }
            }
        }
        let now = if lowrank { scales_of(&lowr.verif_dump(&mut math)) } else { scales_of(&verif::diag_dump(&mut math, &diag)) };
        if std::env::var("C08_DEBUG").is_ok() {
            eprintln!("step {step}: stds={:?} inv={:?} vals_sqrt={:?} logdet={} id={}", now.stds, now.inv_stds, now.vals_sqrt, now.logdet, now.id);
        }
        never_degenerate(&now, &what)?;
        checks += 3 * dim + 1;
        // low-rank: a numerically failed decomposition may keep everything
        let kept_all = now.stds.iter().zip(&before.stds).all(|(a, b)| a.to_bits() == b.to_bits())
            && now.inner_n == before.inner_n && now.vals_sqrt == before.vals_sqrt;
        let may_keep = h["mayKeepAll"].as_bool().unwrap_or(false);
        let wants_new = want.iter().any(|w| w["src"].as_u64().unwrap() as usize == step);
        if lowrank && may_keep && wants_new && kept_all {
            stat[0] += 1; // valid window not used by the low-rank estimator (allowed: failed decomposition)
            after.push(now.stds.clone());
            continue;
        }
        if wants_new && step > 0 {
            stat[1] += 1; // a window whose estimate was installed
        }
        for i in 0..dim {
            let src = want[i]["src"].as_u64().unwrap() as usize;
            let kind = want[i]["kind"].as_str().unwrap();
            if src < step {
                // invalid estimate (or too few draws): the previous value stays in place, bit for bit
                if src > 0 { stat[2] += 1; } else { stat[3] += 1; }
                if now.stds[i].to_bits() != after[src][i].to_bits() || now.stds[i].to_bits() != before.stds[i].to_bits() {
                    return Err(format!("overwritten: scale[{i}] should still be the value of step {src} ({}), is {} {what}",
                        after[src][i], now.stds[i]));
                }
            } else if let Some(x) = want_number(kind) {
                if !close(now.stds[i], x, 1e-12) {
                    return Err(format!("clamp: scale[{i}] should be {x} ({kind}), is {} {what}", now.stds[i]));
                }
            } else {
                let x = est[i].unwrap();
                if !close(now.stds[i], x, 1e-9) {
                    return Err(format!("value: scale[{i}] should be the estimate {x}, is {} {what}", now.stds[i]));
                }
            }
            checks += 1;
        }
        if lowrank && !wants_new && h["op"] == "window" && (now.id != before.id || !kept_all) {
            return Err(format!("overwritten: low-rank transformation changed by an invalid / too small window {what}"));
        }
        after.push(now.stds.clone());
    }
    Ok(checks)
}

fn invert(a: &[Vec<f64>]) -> Vec<Vec<f64>> {
    let n = a.len();
    let mut m: Vec<Vec<f64>> = a.iter().enumerate().map(|(i, r)| {
        let mut row = r.clone();
        row.extend((0..n).map(|j| if i == j { 1.0 } else { 0.0 }));
        row
    }).collect();
    for c in 0..n {
        let p = (c..n).max_by(|x, y| m[*x][c].abs().partial_cmp(&m[*y][c].abs()).unwrap()).unwrap();
        m.swap(c, p);
        let d = m[c][c];
        for j in 0..2 * n {
            m[c][j] /= d;
        }
        for r in 0..n {
            if r != c {
                let f = m[r][c];
                if f != 0.0 {
                    for j in 0..2 * n {
                        m[r][j] -= f * m[c][j];
                    }
                }
            }
        }
    }
    m.into_iter().map(|r| r[n..].to_vec()).collect()
}

fn gauss_diag_case(c: &J) -> Result<usize, String> {
    let d = c["d"].as_u64().unwrap() as usize;
    let n = c["n"].as_u64().unwrap() as usize;
    let sig: Vec<f64> = c["want_e"].as_array().unwrap().iter().map(|e| (2.0f64).powi(e.as_i64().unwrap() as i32)).collect();
    let mu: Vec<f64> = c["want_mu"].as_array().unwrap().iter().map(|m| m.as_f64().unwrap() / 2.0).collect();
    let z: Vec<Vec<f64>> = c["z"].as_array().unwrap().iter().map(|r| r.as_array().unwrap().iter().map(|v| v.as_f64().unwrap()).collect()).collect();
    let mut checks = 0;
    for grad_based in [true, false] {
        let mut math = CpuMath::new(QuadLogp { p: vec![vec![0.0; d]; d], m: vec![0.0; d], quartic: 0.0 });
        let mut diag = verif::diag_mass_matrix(&mut math, &vec![1.0; d], &vec![0.0; d]);
        let settings = DiagAdaptExpSettings { store_mass_matrix: true, use_grad_based_estimate: grad_based };
        let mut s = <DiagAdaptStrategy<M> as MassMatrixAdaptStrategy<M>>::new(&mut math, settings, 100, 0);
        let split = c["split"].as_u64().unwrap_or(0) as usize;
        for j in 0..n {
            if split > 0 && j == split {
                // foreground := background (every draw so far), fresh background
                s.switch(&mut math);
            }
            let x: Vec<f64> = (0..d).map(|i| mu[i] + sig[i] * z[j][i]).collect();
            let g: Vec<f64> = (0..d).map(|i| -z[j][i] / sig[i]).collect();
            verif::mm_feed(&mut math, &mut s, &x, &g, true);
        }
        if !s.adapt(&mut math, &mut diag) {
            return Err(format!("gauss_diag: adapt() did nothing for {n} distinct draws {c}"));
        }
        let dump = verif::diag_dump(&mut math, &diag);
        let now = scales_of(&dump);
        never_degenerate(&now, "gauss_diag")?;
        // the log-determinant is the sum of the logarithms of the inverse scales
        let want_logdet: f64 = now.inv_stds.iter().map(|x| x.ln()).sum();
        if !close(now.logdet, want_logdet, 1e-12) && (now.logdet - want_logdet).abs() > 1e-9 {
            return Err(format!("gauss_diag: log-determinant {} is not the sum of the logarithms of the inverse scales {want_logdet} {c}", now.logdet));
        }
        if !grad_based {
            // the draw-only rule estimates the sample variance, which is not the target's: only non-degeneracy is demanded
            checks += d;
            continue;
        }
        let mean = fbv(&dump["mean"]);
        for i in 0..d {
            let zmax = (0..n).map(|j| z[j][i].abs()).fold(0.0, f64::max);
            // with mean 0 every operation commutes with the power-of-two scale: bit for bit;
            // otherwise to rounding of the inputs (relative to the offset / spread ratio)
            let cond = mu[i].abs() / sig[i];
            let tol = if mu[i] == 0.0 { 0.0 } else { 1e-13 * (1.0 + cond) };
            if !close(now.stds[i], sig[i], tol) {
                return Err(format!("gauss_diag: scale[{i}] = {} instead of sigma = {} (tolerance {tol}) {c}", now.stds[i], sig[i]));
            }
            let mtol = 1e-13 * (mu[i].abs() + sig[i] * zmax) * n as f64 * (1.0 + cond);
            if (mean[i] - mu[i]).abs() > mtol {
                return Err(format!("gauss_diag: mean[{i}] = {} instead of mu = {} (tolerance {mtol}) {c}", mean[i], mu[i]));
            }
            checks += 2;
        }
    }
    Ok(checks)
}

fn gauss_lowrank_case(c: &J, tol: f64, worst: &mut f64) -> Result<usize, String> {
    let d = c["d"].as_u64().unwrap() as usize;
    let n = c["n"].as_u64().unwrap() as usize;
    let rank = c["rank"].as_u64().unwrap() as usize;
    let es: Vec<i64> = c["e"].as_array().unwrap().iter().map(|e| e.as_i64().unwrap()).collect();
    let mus: Vec<f64> = c["mu"].as_array().unwrap().iter().map(|m| m.as_f64().unwrap() / 2.0).collect();
    let sig: Vec<f64> = (0..d).map(|i| (2.0f64).powi(es[i % es.len()] as i32)).collect();
    let mu: Vec<f64> = (0..d).map(|i| mus[i % mus.len()]).collect();
    let mut rng = Lcg(c["seed"].as_u64().unwrap() * 7919 + d as u64 * 31 + n as u64);
    // Sigma = D (I + sum_k c_k u_k u_k^T) D
    let mut core = vec![vec![0.0; d]; d];
    for i in 0..d {
        core[i][i] = 1.0;
    }
    let us: Vec<Vec<f64>> = vec![
        (0..d).map(|_| 1.0 / (d as f64).sqrt()).collect(),
        (0..d).map(|i| if i % 2 == 0 { 1.0 } else { -1.0 } / (d as f64).sqrt()).collect(),
    ];
    let cs = [3.0, 15.0];
    for k in 0..rank {
        for i in 0..d {
            for j in 0..d {
                core[i][j] += cs[k] * us[k][i] * us[k][j];
            }
        }
    }
    let equi = c["corr"] == "equi";
    if equi {
        // equicorrelated: eigenvalues 1 + (d-1) rho and 1 - rho, all outside [1/2, 2]
        let rho = if c["seed"].as_u64().unwrap() % 2 == 0 { 0.9 } else { 0.8 };
        for i in 0..d {
            for j in 0..d {
                core[i][j] = if i == j { 1.0 } else { rho };
            }
        }
    }
    let cov: Vec<Vec<f64>> = (0..d).map(|i| (0..d).map(|j| sig[i] * core[i][j] * sig[j]).collect()).collect();
    // precision = D^-1 core^-1 D^-1 (inverting the well-conditioned core only)
    let core_inv = invert(&core);
    let prec: Vec<Vec<f64>> = (0..d).map(|i| (0..d).map(|j| core_inv[i][j] / sig[i] / sig[j]).collect()).collect();
    let _ = cov;
    let logp = QuadLogp { p: prec.clone(), m: mu.clone(), quartic: 0.0 };
    let mut math = CpuMath::new(logp);
    let mut lowr = verif::low_rank_mass_matrix(&mut math);
    let mut s = LowRankMassMatrixStrategy::new(d, LowRankSettings { store_mass_matrix: true, gamma: std::env::var("C08_GAMMA").ok().and_then(|s| s.parse().ok()).unwrap_or(1e-5), eigval_cutoff: if equi { LowRankSettings::default().eigval_cutoff } else { 1.00001 } });
    let mut xs: Vec<Vec<f64>> = vec![];
    if equi {
        // With the default cut-off the estimator may legitimately cut directions whose eigenvalue - as seen through
        // the window - lies in [1/2, 2]. To know what it sees, the window is a design whose empirical mean and
        // covariance are exactly the target's: x = mu + D L z for z = +-sqrt(d) e_k (2d draws), L L^T = core.
        let mut l = vec![vec![0.0; d]; d];
        for i in 0..d {
            for j in 0..=i {
                let sum: f64 = (0..j).map(|k| l[i][k] * l[j][k]).sum();
                l[i][j] = if i == j { (core[i][i] - sum).sqrt() } else { (core[i][j] - sum) / l[j][j] };
            }
        }
        for k in 0..d {
            for sgn in [1.0, -1.0] {
                let z = sgn * (d as f64).sqrt();
                xs.push((0..d).map(|i| mu[i] + sig[i] * l[i][k] * z).collect());
            }
        }
    } else {
        // any placement of the draws: arbitrary points around the mean, not samples of the target
        for _ in 0..n {
            xs.push((0..d).map(|i| mu[i] + sig[i] * 2.0 * rng.next()).collect());
        }
    }
    for x in &xs {
        let g: Vec<f64> = (0..d).map(|i| -(0..d).map(|j| prec[i][j] * (x[j] - mu[j])).sum::<f64>()).collect();
        verif::mm_feed(&mut math, &mut s, x, &g, true);
    }
    let before = lowr.verif_dump(&mut math)["id"].as_i64().unwrap();
    <LowRankMassMatrixStrategy as MassMatrixAdaptStrategy<M>>::adapt(&s, &mut math, &mut lowr);
    let dump = lowr.verif_dump(&mut math);
    let now = scales_of(&dump);
    never_degenerate(&now, "gauss_lowrank")?;
    if now.id == before {
        return Err(format!("gauss_lowrank: a window of {} draws spanning the space was not used {c}", xs.len()));
    }
    // in the whitened space gradient = -position
    let mut ham = TransformedHamiltonian::new(&mut math, lowr, KineticEnergyKind::Euclidean);
    let mut checks = 0;
    for _ in 0..4 {
        let x: Vec<f64> = (0..d).map(|i| mu[i] + sig[i] * 3.0 * rng.next()).collect();
        let state = ham.init_state(&mut math, &x).map_err(|e| format!("gauss_lowrank: init_state {e} {c}"))?;
        let p = verif::point_dump(&mut math, &state);
        let y: Vec<f64> = p["y"].as_array().unwrap().iter().map(|v| v.as_f64().unwrap_or(f64::NAN)).collect();
        let gy: Vec<f64> = p["gy"].as_array().unwrap().iter().map(|v| v.as_f64().unwrap_or(f64::NAN)).collect();
        let num: f64 = y.iter().zip(&gy).map(|(a, b)| (a + b) * (a + b)).sum::<f64>().sqrt();
        let den: f64 = y.iter().map(|a| a * a).sum::<f64>().sqrt();
        let r = num / den;
        if r.is_nan() || r > *worst {
            *worst = r;
        }
        // the draws are mu + sigma z in double precision: their deviations from mu carry a relative error of about
        // eps * |mu| / sigma, which no estimator can undo
        let cond = (0..d).map(|i| mu[i].abs() / sig[i]).fold(0.0f64, f64::max);
        let tol = tol + 4.0 * f64::EPSILON * cond;
        if !(r <= tol) {
            return Err(format!("gauss_lowrank: |grad + position| / |position| = {r} in the whitened space (tolerance {tol}) {c}"));
        }
        checks += 1;
    }
    Ok(checks)
}

pub fn main(args: &[String]) -> i32 {
    let path = args.first().cloned().unwrap_or("-".into());
    let reader: Box<dyn BufRead> = if path == "-" {
        Box::new(std::io::BufReader::new(std::io::stdin()))
    } else {
        Box::new(std::io::BufReader::new(std::fs::File::open(&path).expect("open")))
    };
    let repeat: u64 = std::env::var("C08_REPEAT").ok().and_then(|s| s.parse().ok()).unwrap_or(1);
    let tol: f64 = std::env::var("C08_LOWRANK_TOL").ok().and_then(|s| s.parse().ok()).unwrap_or(1e-6);
    std::panic::set_hook(Box::new(|_| {}));
    let (mut cases, mut checks) = (0usize, 0usize);
    let mut kinds: std::collections::BTreeMap<String, usize> = Default::default();
    let mut failures: Vec<J> = vec![];
    let mut keys: std::collections::BTreeSet<String> = Default::default();
    let mut samples = vec![];
    let mut worst = 0.0f64;
    let mut stat = [0usize; 4];
    for line in reader.lines() {
        let line = line.expect("read");
        let Some(pos) = line.find("<<\"REPLAY\", ") else { continue };
        let inner = line[pos + 12..].trim_end().trim_end_matches(">>");
        let Ok(s) = serde_json::from_str::<String>(inner) else { continue };
        let Ok(c) = serde_json::from_str::<J>(&s) else { continue };
        cases += 1;
        let kind = c["kind"].as_str().unwrap_or("history").to_string();
        *kinds.entry(if kind == "history" { format!("history_{}", c["rule"].as_str().unwrap()) } else { kind.clone() }).or_default() += 1;
        let r = std::panic::catch_unwind(std::panic::AssertUnwindSafe(|| match kind.as_str() {
            "gauss_diag" => gauss_diag_case(&c),
            "gauss_lowrank" => gauss_lowrank_case(&c, tol, &mut worst),
            _ => {
                // the class of a window fixes its shape, not its numbers: every history is run on `repeat` data sets
                let mut total = 0;
                let mut res = Ok(0);
                for r in 0..repeat {
                    res = history_case(&c, (cases as u64) * 1000 + r, &mut stat);
                    match &res {
                        Ok(k) => total += *k,
                        Err(_) => break,
                    }
                }
                res.map(|_| total)
            }
        }));
        let err = match r {
            Ok(Ok(k)) => {
                checks += k;
                if samples.len() < 3 && cases % 997 == 1 {
                    samples.push(c.clone());
                }
                None
            }
            Ok(Err(e)) => Some(e),
            Err(p) => Some(format!("panic: {}", crate::record::panic_msg(&p))),
        };
        if let Some(e) = err {
            let key: String = e.split(' ').take(3).collect::<Vec<_>>().join(" ");
            let key = format!("{kind}:{}:{key}", c["rule"].as_str().unwrap_or(""));
            if keys.insert(key.clone()) || failures.len() < 5 {
                failures.push(json!({"key": key, "mismatch": e, "case": c}));
            }
        }
    }
    let summary = json!({"cases": cases, "checks": checks, "kinds": kinds, "failures": failures.len(),
        "first_failures": failures.iter().take(40).collect::<Vec<_>>(), "samples": samples, "lowrank_worst_residual": worst,
        "lowrank_valid_window_not_used": stat[0], "windows_installed": stat[1], "kept_estimated_value": stat[2], "kept_initial_value": stat[3]});
    if let Some(p) = args.get(1) {
        std::fs::File::create(p).unwrap().write_all(summary.to_string().as_bytes()).unwrap();
    }
    println!("{}", json!({"cases": cases, "checks": checks, "failures": failures.len(), "lowrank_worst_residual": worst}));
    if let Some(f) = failures.first() {
        eprintln!("first mismatch: {}", f["mismatch"]);
        return 1;
    }
    0
}
