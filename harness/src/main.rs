mod density;
mod derive_schema;
mod fault_sweep;
mod momentum;
mod record;
mod record_sampler;
mod replay_kernels;
mod replay_lattice;
mod replay_nuts;
mod replay_pool;
mod replay_massmatrix;
mod replay_stepsize;
mod replay_storage;

fn main() {
    let args: Vec<String> = std::env::args().collect();
    let cmd = args.get(1).map(|s| s.as_str()).unwrap_or("");
    let rest = &args[2.min(args.len())..];
    let code = match cmd {
        "replay-nuts" => replay_nuts::main(rest),
        "replay-lattice" => replay_lattice::main(rest),
        "replay-kernels" => replay_kernels::main(rest),
        "record-chains" => record::main(rest),
        "record-sampler" => record_sampler::main(rest),
        "fault-sweep" => fault_sweep::main(rest),
        "replay-massmatrix" => replay_massmatrix::main(rest),
        "replay-stepsize" => replay_stepsize::main(rest),
        "replay-storage" => replay_storage::main(rest),
        "replay-pool" => replay_pool::main(rest),
        "derive-schema" => derive_schema::main(rest),
        _ => {
            eprintln!("usage: vh <replay-nuts|...> args");
            2
        }
    };
    std::process::exit(code);
}
