//! C17 binding: the expected results of Kernels.tla (exact integer arithmetic / special-value
//! classes) against the real `CpuMath` vector operations, for every length 0..=130.

use std::io::{BufRead, Write};

use nuts_rs::{CpuMath, Math};
use serde_json::{Value as J, json};

use crate::replay_nuts::DummyLogp;

fn ints(j: &J) -> Vec<f64> {
    j.as_array().map(|a| a.iter().map(|x| x.as_f64().unwrap()).collect()).unwrap_or_default()
}
fn class(x: f64) -> &'static str {
    if x.is_nan() { "nan" } else if x == f64::INFINITY { "pinf" } else if x == f64::NEG_INFINITY { "ninf" } else { "fin" }
}
fn special(s: &str) -> f64 {
    match s {
        "nan" => f64::NAN,
        "pinf" => f64::INFINITY,
        _ => f64::NEG_INFINITY,
    }
}

fn vecof(math: &mut CpuMath<DummyLogp>, v: &[f64]) -> <CpuMath<DummyLogp> as Math>::Vector {
    let mut a = math.new_array();
    math.read_from_slice(&mut a, v);
    a
}
fn tov(math: &mut CpuMath<DummyLogp>, a: &<CpuMath<DummyLogp> as Math>::Vector) -> Vec<f64> {
    math.box_array(a).to_vec()
}

fn exact_case(c: &J) -> Result<usize, String> {
    let n = c["n"].as_u64().unwrap() as usize;
    let mut math = CpuMath::new(DummyLogp { dim: n });
    let (x, y, p1, n1, p2) = (ints(&c["x"]), ints(&c["y"]), ints(&c["p1"]), ints(&c["n1"]), ints(&c["p2"]));
    let (vx, vy, vp1, vn1, vp2) = (vecof(&mut math, &x), vecof(&mut math, &y), vecof(&mut math, &p1), vecof(&mut math, &n1), vecof(&mut math, &p2));
    let mut checks = 0;
    // axpy / axpy_out for every scalar
    for (a2s, want) in c["axpy2"].as_object().unwrap() {
        let a = a2s.parse::<f64>().unwrap() / 2.0;
        let want = ints(want);
        let mut yy = vecof(&mut math, &y);
        math.axpy(&vx, &mut yy, a);
        let got: Vec<f64> = tov(&mut math, &yy).iter().map(|v| v * 2.0).collect();
        if got != want {
            return Err(format!("axpy n={n} a={a}: {got:?} vs {want:?}"));
        }
        let mut out = math.new_array();
        math.axpy_out(&vx, &vy, a, &mut out);
        let got: Vec<f64> = tov(&mut math, &out).iter().map(|v| v * 2.0).collect();
        if got != want {
            return Err(format!("axpy_out n={n} a={a}: {got:?} vs {want:?}"));
        }
        checks += 2;
    }
    let want = ints(&c["mult"]);
    let mut out = math.new_array();
    math.array_mult(&vx, &vy, &mut out);
    if tov(&mut math, &out) != want {
        return Err(format!("array_mult n={n}"));
    }
    let mut xx = vecof(&mut math, &x);
    math.array_mult_inplace(&mut xx, &vy);
    if tov(&mut math, &xx) != want {
        return Err(format!("array_mult_inplace n={n}"));
    }
    let d = math.array_vector_dot(&vx, &vy);
    if d != c["dot"].as_f64().unwrap() {
        return Err(format!("array_vector_dot n={n}: {d} vs {}", c["dot"]));
    }
    let (a, b) = math.scalar_prods2(&vp1, &vp2, &vx, &vy);
    let w = ints(&c["prods2"]);
    if [a, b] != [w[0], w[1]] {
        return Err(format!("scalar_prods2 n={n}: ({a},{b}) vs {w:?}"));
    }
    let (a, b) = math.scalar_prods3(&vp1, &vn1, &vp2, &vx, &vy);
    let w = ints(&c["prods3"]);
    if [a, b] != [w[0], w[1]] {
        return Err(format!("scalar_prods3 n={n}: ({a},{b}) vs {w:?}"));
    }
    let s = math.sq_norm_sum(&vx, &vy);
    if s != c["sqnorm"].as_f64().unwrap() {
        return Err(format!("sq_norm_sum n={n}: {s} vs {}", c["sqnorm"]));
    }
    // copies / fills touch every element exactly once
    let mut cp = math.new_array();
    math.copy_into(&vy, &mut cp);
    if tov(&mut math, &cp) != y {
        return Err(format!("copy_into n={n}"));
    }
    math.fill_array(&mut cp, 2.5);
    if tov(&mut math, &cp) != vec![2.5; n] {
        return Err(format!("fill_array n={n}"));
    }
    if !math.array_all_finite(&vx) || (n > 0 && !math.array_all_finite_and_nonzero(&vx)) {
        return Err(format!("all_finite on finite input n={n}"));
    }
    // reciprocal of powers of two is exact
    let pw: Vec<f64> = (0..n).map(|i| [0.25, 0.5, 1.0, 2.0, 4.0][i % 5]).collect();
    let vp = vecof(&mut math, &pw);
    let mut rc = math.new_array();
    math.array_recip(&vp, &mut rc);
    if tov(&mut math, &rc) != pw.iter().map(|v| 1.0 / v).collect::<Vec<_>>() {
        return Err(format!("array_recip n={n}"));
    }
    // normalisation of a vector with a single non-zero entry is exact
    if n > 0 {
        for k in [0, n / 2, n - 1] {
            let mut e = vec![0.0; n];
            e[k] = -4.0;
            let mut ve = vecof(&mut math, &e);
            math.array_normalize(&mut ve);
            let mut want = vec![0.0; n];
            want[k] = -1.0;
            if tov(&mut math, &ve) != want {
                return Err(format!("array_normalize n={n} k={k}"));
            }
        }
    }
    Ok(checks + 10)
}

fn special_case(c: &J) -> Result<usize, String> {
    let n = c["n"].as_u64().unwrap() as usize;
    let k = c["k"].as_u64().unwrap() as usize - 1;
    let sp = special(c["sp"].as_str().unwrap());
    let mut math = CpuMath::new(DummyLogp { dim: n });
    let (mut x, y) = (ints(&c["x"]), ints(&c["y"]));
    x[k] = sp;
    let (vx, vy) = (vecof(&mut math, &x), vecof(&mut math, &y));
    let d = math.array_vector_dot(&vx, &vy);
    if class(d) != c["dot"].as_str().unwrap() {
        return Err(format!("dot with {} at {k} of {n}: {d} (want {})", c["sp"], c["dot"]));
    }
    let zero = vec![0.0; n];
    let vz = vecof(&mut math, &zero);
    // the fused dot products used by the U-turn test and energies propagate like the scalar formula
    let (a, b) = math.scalar_prods2(&vy, &vz, &vx, &vy);
    if class(a) != c["dot"].as_str().unwrap() || class(b) != "fin" {
        return Err(format!("scalar_prods2 with {} at {k} of {n}: ({a},{b})", c["sp"]));
    }
    let (a, _) = math.scalar_prods3(&vy, &vz, &vz, &vx, &vy);
    if class(a) != c["dot"].as_str().unwrap() {
        return Err(format!("scalar_prods3 with {} at {k} of {n}: {a}", c["sp"]));
    }
    for (a2s, want) in c["axpy"].as_object().unwrap() {
        let a = a2s.parse::<f64>().unwrap() / 2.0;
        let mut yy = vecof(&mut math, &y);
        math.axpy(&vx, &mut yy, a);
        let got = tov(&mut math, &yy);
        for i in 0..n {
            if i == k {
                if class(got[i]) != want.as_str().unwrap() {
                    return Err(format!("axpy a={a} special {} at {k} of {n}: got {}", c["sp"], got[i]));
                }
            } else if got[i] != y[i] + a * x[i] {
                return Err(format!("axpy a={a}: element {i} of {n} disturbed by the special value at {k}"));
            }
        }
    }
    let mut out = math.new_array();
    math.array_mult(&vx, &vy, &mut out);
    let got = tov(&mut math, &out);
    for i in 0..n {
        if i == k {
            if class(got[i]) != c["mult"].as_str().unwrap() {
                return Err(format!("array_mult special at {k} of {n}: {}", got[i]));
            }
        } else if got[i] != x[i] * y[i] {
            return Err(format!("array_mult element {i} of {n} disturbed"));
        }
    }
    let s = math.sq_norm_sum(&vx, &vy);
    if class(s) != c["sq"].as_str().unwrap() {
        return Err(format!("sq_norm_sum special at {k} of {n}: {s}"));
    }
    if math.array_all_finite(&vx) || math.array_all_finite_and_nonzero(&vx) {
        return Err(format!("all_finite misses {} at {k} of {n}", c["sp"]));
    }
    // a zero anywhere is found by the non-zero test
    let mut xz = ints(&c["x"]);
    xz[k] = 0.0;
    let vxz = vecof(&mut math, &xz);
    if !math.array_all_finite(&vxz) || math.array_all_finite_and_nonzero(&vxz) {
        return Err(format!("all_finite_and_nonzero misses 0 at {k} of {n}"));
    }
    // the finiteness tests for every class of value at this position, against the specification's table
    let mut checks = 8;
    if let Some(tests) = c["tests"].as_object() {
        for (cl, want) in tests {
            let v = match cl.as_str() {
                "sub" => 5e-324,
                "negsub" => -f64::MIN_POSITIVE / 2.0,
                "zero" => 0.0,
                "negzero" => -0.0,
                "huge" => -1e200,
                "max" => f64::MAX,
                "nan" => f64::NAN,
                "pinf" => f64::INFINITY,
                _ => f64::NEG_INFINITY,
            };
            // every other element normal, finite and non-zero
            let mut xs: Vec<f64> = (0..n).map(|i| 1.0 + i as f64).collect();
            xs[k] = v;
            let vs = vecof(&mut math, &xs);
            let got = (math.array_all_finite(&vs), math.array_all_finite_and_nonzero(&vs));
            let want = (want[0].as_bool().unwrap(), want[1].as_bool().unwrap());
            if got != want {
                return Err(format!("finiteness tests with {cl} at {k} of {n}: (all_finite, all_finite_and_nonzero) = {got:?}, specification {want:?}"));
            }
            checks += 2;
        }
    }
    Ok(checks)
}

pub fn main(args: &[String]) -> i32 {
    let path = args.first().cloned().unwrap_or("-".into());
    let reader: Box<dyn BufRead> = if path == "-" {
        Box::new(std::io::BufReader::new(std::io::stdin()))
    } else {
        Box::new(std::io::BufReader::new(std::fs::File::open(&path).expect("open")))
    };
    std::panic::set_hook(Box::new(|_| {}));
    let (mut cases, mut checks, mut lens) = (0usize, 0usize, std::collections::BTreeSet::new());
    let mut failures: Vec<J> = vec![];
    let mut samples = vec![];
    for line in reader.lines() {
        let line = line.expect("read");
        let Some(pos) = line.find("<<\"REPLAY\", ") else { continue };
        let inner = line[pos + 12..].trim_end().trim_end_matches(">>");
        let Ok(s) = serde_json::from_str::<String>(inner) else { continue };
        let Ok(c) = serde_json::from_str::<J>(&s) else { continue };
        cases += 1;
        lens.insert(c["n"].as_u64().unwrap_or(0));
        let r = std::panic::catch_unwind(std::panic::AssertUnwindSafe(|| {
            if c["kind"] == "exact" { exact_case(&c) } else { special_case(&c) }
        }));
        match r {
            Ok(Ok(k)) => {
                checks += k;
                if samples.len() < 2 && c["n"].as_u64().unwrap_or(0) == 5 {
                    samples.push(c.clone());
                }
            }
            Ok(Err(e)) => failures.push(json!({"mismatch": e})),
            Err(p) => failures.push(json!({"mismatch": format!("panic: {}", crate::record::panic_msg(&p))})),
        }
    }
    let summary = json!({"cases": cases, "checks": checks, "lengths": lens.len(), "failures": failures.len(),
        "first_failures": failures.iter().take(5).collect::<Vec<_>>(), "samples": samples});
    if let Some(p) = args.get(1) {
        std::fs::File::create(p).unwrap().write_all(summary.to_string().as_bytes()).unwrap();
    }
    println!("{}", json!({"cases": cases, "checks": checks, "lengths": lens.len(), "failures": failures.len()}));
    if let Some(f) = failures.first() {
        eprintln!("first mismatch: {}", f["mismatch"]);
        return 1;
    }
    0
}
