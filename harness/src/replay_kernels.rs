//! C17 binding: the expected results of Kernels.tla (exact integer arithmetic / special-value
//! classes) against the real `CpuMath` vector operations, for every length 0..=130.

use std::io::{BufRead, Write};

use nuts_rs::{CpuMath, Math};
use serde_json::{Value as J, json};

use crate::replay_nuts::DummyLogp;

fn ints(j: &J) -> Vec<f64> {
    j.as_array().map(|a| a.iter().map(|x| x.as_f64().unwrap()).collect()).unwrap_or_default()
}
fn class(x: f64) -> &'static str {
    if x.is_nan() { "nan" } else if x == f64::INFINITY { "pinf" } else if x == f64::NEG_INFINITY { "ninf" } else { "fin" }
}
fn special(s: &str) -> f64 {
    match s {
        "nan" => f64::NAN,
        "pinf" => f64::INFINITY,
        _ => f64::NEG_INFINITY,
    }
}

fn vecof(math: &mut CpuMath<DummyLogp>, v: &[f64]) -> <CpuMath<DummyLogp> as Math>::Vector {
    let mut a = math.new_array();
    math.read_from_slice(&mut a, v);
    a
}
fn tov(math: &mut CpuMath<DummyLogp>, a: &<CpuMath<DummyLogp> as Math>::Vector) -> Vec<f64> {
    math.box_array(a).to_vec()
}

fn exact_case(c: &J) -> Result<usize, String> {
    let n = c["n"].as_u64().unwrap() as usize;
    let mut math = CpuMath::new(DummyLogp { dim: n });
    let (x, y, p1, n1, p2) = (ints(&c["x"]), ints(&c["y"]), ints(&c["p1"]), ints(&c["n1"]), ints(&c["p2"]));
    let (vx, vy, vp1, vn1, vp2) = (vecof(&mut math, &x), vecof(&mut math, &y), vecof(&mut math, &p1), vecof(&mut math, &n1), vecof(&mut math, &p2));
    let mut checks = 0;
    // axpy / axpy_out for every scalar
    for (a2s, want) in c["axpy2"].as_object().unwrap() {
        let a = a2s.parse::<f64>().unwrap() / 2.0;
        let want = ints(want);
        let mut yy = vecof(&mut math, &y);
        math.axpy(&vx, &mut yy, a);
        let got: Vec<f64> = tov(&mut math, &yy).iter().map(|v| v * 2.0).collect();
        if got != want {
            return Err(format!("axpy n={n} a={a}: {got:?} vs {want:?}"));
        }
        let mut out = math.new_array();
        math.axpy_out(&vx, &vy, a, &mut out);
        let got: Vec<f64> = tov(&mut math, &out).iter().map(|v| v * 2.0).collect();
        if got != want {
            return Err(format!("axpy_out n={n} a={a}: {got:?} vs {want:?}"));
        }
        checks += 2;
    }
    let want = ints(&c["mult"]);
    let mut out = math.new_array();
    math.array_mult(&vx, &vy, &mut out);
    if tov(&mut math, &out) != want {
        return Err(format!("array_mult n={n}"));
    }
    let mut xx = vecof(&mut math, &x);
    math.array_mult_inplace(&mut xx, &vy);
    if tov(&mut math, &xx) != want {
        return Err(format!("array_mult_inplace n={n}"));
    }
    let d = math.array_vector_dot(&vx, &vy);
    if d != c["dot"].as_f64().unwrap() {
        return Err(format!("array_vector_dot n={n}: {d} vs {}", c["dot"]));
    }
    let (a, b) = math.scalar_prods2(&vp1, &vp2, &vx, &vy);
    let w = ints(&c["prods2"]);
    if [a, b] != [w[0], w[1]] {
        return Err(format!("scalar_prods2 n={n}: ({a},{b}) vs {w:?}"));
    }
    let (a, b) = math.scalar_prods3(&vp1, &vn1, &vp2, &vx, &vy);
    let w = ints(&c["prods3"]);
    if [a, b] != [w[0], w[1]] {
        return Err(format!("scalar_prods3 n={n}: ({a},{b}) vs {w:?}"));
    }
    let s = math.sq_norm_sum(&vx, &vy);
    if s != c["sqnorm"].as_f64().unwrap() {
        return Err(format!("sq_norm_sum n={n}: {s} vs {}", c["sqnorm"]));
    }
    // copies / fills touch every element exactly once
    let mut cp = math.new_array();
    math.copy_into(&vy, &mut cp);
    if tov(&mut math, &cp) != y {
        return Err(format!("copy_into n={n}"));
    }
    math.fill_array(&mut cp, 2.5);
    if tov(&mut math, &cp) != vec![2.5; n] {
        return Err(format!("fill_array n={n}"));
    }
    if !math.array_all_finite(&vx) || (n > 0 && !math.array_all_finite_and_nonzero(&vx)) {
        return Err(format!("all_finite on finite input n={n}"));
    }
    // reciprocal of powers of two is exact
    let pw: Vec<f64> = (0..n).map(|i| [0.25, 0.5, 1.0, 2.0, 4.0][i % 5]).collect();
    let vp = vecof(&mut math, &pw);
    let mut rc = math.new_array();
    math.array_recip(&vp, &mut rc);
    if tov(&mut math, &rc) != pw.iter().map(|v| 1.0 / v).collect::<Vec<_>>() {
        return Err(format!("array_recip n={n}"));
    }
    // normalisation of a vector with a single non-zero entry is exact
    if n > 0 {
        for k in [0, n / 2, n - 1] {
            let mut e = vec![0.0; n];
            e[k] = -4.0;
            let mut ve = vecof(&mut math, &e);
            math.array_normalize(&mut ve);
            let mut want = vec![0.0; n];
            want[k] = -1.0;
            if tov(&mut math, &ve) != want {
                return Err(format!("array_normalize n={n} k={k}"));
            }
        }
    }
    Ok(checks + 10)
}

fn special_case(c: &J) -> Result<usize, String> {
    let n = c["n"].as_u64().unwrap() as usize;
    let k = c["k"].as_u64().unwrap() as usize - 1;
    let sp = special(c["sp"].as_str().unwrap());
    let mut math = CpuMath::new(DummyLogp { dim: n });
    let (mut x, y) = (ints(&c["x"]), ints(&c["y"]));
    x[k] = sp;
    let (vx, vy) = (vecof(&mut math, &x), vecof(&mut math, &y));
    let d = math.array_vector_dot(&vx, &vy);
    if class(d) != c["dot"].as_str().unwrap() {
        return Err(format!("dot with {} at {k} of {n}: {d} (want {})", c["sp"], c["dot"]));
    }
    let zero = vec![0.0; n];
    let vz = vecof(&mut math, &zero);
    // the fused dot products used by the U-turn test and energies propagate like the scalar formula
    let (a, b) = math.scalar_prods2(&vy, &vz, &vx, &vy);
    if class(a) != c["dot"].as_str().unwrap() || class(b) != "fin" {
        return Err(format!("scalar_prods2 with {} at {k} of {n}: ({a},{b})", c["sp"]));
    }
    let (a, _) = math.scalar_prods3(&vy, &vz, &vz, &vx, &vy);
    if class(a) != c["dot"].as_str().unwrap() {
        return Err(format!("scalar_prods3 with {} at {k} of {n}: {a}", c["sp"]));
    }
    for (a2s, want) in c["axpy"].as_object().unwrap() {
        let a = a2s.parse::<f64>().unwrap() / 2.0;
        let mut yy = vecof(&mut math, &y);
        math.axpy(&vx, &mut yy, a);
        let got = tov(&mut math, &yy);
        for i in 0..n {
            if i == k {
                if class(got[i]) != want.as_str().unwrap() {
                    return Err(format!("axpy a={a} special {} at {k} of {n}: got {}", c["sp"], got[i]));
                }
            } else if got[i] != y[i] + a * x[i] {
                return Err(format!("axpy a={a}: element {i} of {n} disturbed by the special value at {k}"));
            }
        }
    }
    let mut out = math.new_array();
    math.array_mult(&vx, &vy, &mut out);
    let got = tov(&mut math, &out);
    for i in 0..n {
        if i == k {
            if class(got[i]) != c["mult"].as_str().unwrap() {
                return Err(format!("array_mult special at {k} of {n}: {}", got[i]));
            }
        } else if got[i] != x[i] * y[i] {
            return Err(format!("array_mult element {i} of {n} disturbed"));
        }
    }
    let s = math.sq_norm_sum(&vx, &vy);
    if class(s) != c["sq"].as_str().unwrap() {
        return Err(format!("sq_norm_sum special at {k} of {n}: {s}"));
    }
    if math.array_all_finite(&vx) || math.array_all_finite_and_nonzero(&vx) {
        return Err(format!("all_finite misses {} at {k} of {n}", c["sp"]));
    }
    // a zero anywhere is found by the non-zero test
    let mut xz = ints(&c["x"]);
    xz[k] = 0.0;
    let vxz = vecof(&mut math, &xz);
    if !math.array_all_finite(&vxz) || math.array_all_finite_and_nonzero(&vxz) {
        return Err(format!("all_finite_and_nonzero misses 0 at {k} of {n}"));
    }
    // the finiteness tests for every class of value at this position, against the specification's table
    let mut checks = 8;
    if let Some(tests) = c["tests"].as_object() {
        for (cl, want) in tests {
            let v = match cl.as_str() {
                "sub" => 5e-324,
                "negsub" => -f64::MIN_POSITIVE / 2.0,
                "zero" => 0.0,
                "negzero" => -0.0,
                "huge" => -1e200,
                "max" => f64::MAX,
                "nan" => f64::NAN,
                "pinf" => f64::INFINITY,
                _ => f64::NEG_INFINITY,
            };
            // every other element normal, finite and non-zero
            let mut xs: Vec<f64> = (0..n).map(|i| 1.0 + i as f64).collect();
            xs[k] = v;
            let vs = vecof(&mut math, &xs);
            let got = (math.array_all_finite(&vs), math.array_all_finite_and_nonzero(&vs));
            let want = (want[0].as_bool().unwrap(), want[1].as_bool().unwrap());
            if got != want {
                return Err(format!("finiteness tests with {cl} at {k} of {n}: (all_finite, all_finite_and_nonzero) = {got:?}, specification {want:?}"));
            }
            checks += 2;
        }
    }
    Ok(checks)
}

/// the rotation's element formula, as Kernels.tla states it (FlowPos / FlowVel)
fn rot_ref(p: f64, v: f64, c: f64, s: f64) -> (f64, f64) {
    (p * c + v * s, v * c - p * s)
}
fn parse_pair(key: &str) -> (f64, f64) {
    let t: Vec<f64> = key.trim_matches(|ch| ch == '<' || ch == '>').split(',').map(|x| x.trim().parse::<f64>().unwrap()).collect();
    (t[0], t[1])
}
/// a step whose (cos, sin) have the given signs
fn eps_for(sc: f64, ss: f64) -> f64 {
    match (sc as i64, ss as i64) {
        (1, 0) => 0.0,
        (1, 1) => 0.3,
        (1, -1) => -1.1,
        (-1, 1) => 2.5,
        _ => panic!("no step for signs ({sc}, {ss})"),
    }
}
fn near(got: f64, a: f64, b: f64) -> bool {
    // got should be a + b evaluated with or without fusing: within 4 ulp of the larger product
    (got - (a + b)).abs() <= 4.0 * f64::EPSILON * a.abs().max(b.abs()).max(f64::MIN_POSITIVE)
}

fn flow_case(c: &J) -> Result<usize, String> {
    let n = c["n"].as_u64().unwrap() as usize;
    let mut math = CpuMath::new(DummyLogp { dim: n });
    let (pos, vel, grad) = (ints(&c["pos"]), ints(&c["vel"]), ints(&c["grad"]));
    let (vp, vg, vv) = (vecof(&mut math, &pos), vecof(&mut math, &grad), vecof(&mut math, &vel));
    let mut checks = 0;
    for (e2s, want) in c["gradflow2"].as_object().unwrap() {
        let eps = e2s.parse::<f64>().unwrap() / 2.0;
        let want = ints(want);
        let mut out = math.new_array();
        math.std_norm_grad_flow(&vp, &vg, &vv, &mut out, eps);
        let got: Vec<f64> = tov(&mut math, &out).iter().map(|v| v * 2.0).collect();
        if got != want {
            return Err(format!("std_norm_grad_flow n={n} eps={eps}: {got:?} vs {want:?}"));
        }
        let mut v2 = vecof(&mut math, &vel);
        math.std_norm_grad_flow_inplace(&vp, &vg, &mut v2, eps);
        let got: Vec<f64> = tov(&mut math, &v2).iter().map(|v| v * 2.0).collect();
        if got != want {
            return Err(format!("std_norm_grad_flow_inplace n={n} eps={eps}: {got:?} vs {want:?}"));
        }
        checks += 2;
    }
    for (key, want) in c["rot"].as_object().unwrap() {
        let (cc, ss) = parse_pair(key);
        let (wp, wv) = (ints(&want[0]), ints(&want[1]));
        // the harness's reference formula is the specification's
        for i in 0..n {
            if rot_ref(pos[i], vel[i], cc, ss) != (wp[i], wv[i]) {
                return Err(format!("harness reference formula differs from Kernels.tla at n={n} i={i}"));
            }
        }
        if (cc, ss) == (1.0, 0.0) {
            let mut po = math.new_array();
            let mut v2 = vecof(&mut math, &vel);
            math.std_norm_flow(&vp, &mut po, &mut v2, 0.0);
            if tov(&mut math, &po) != wp || tov(&mut math, &v2) != wv {
                return Err(format!("std_norm_flow n={n} eps=0 is not the identity"));
            }
            checks += 1;
        }
    }
    // real steps: element by element within rounding of the scalar formula
    for eps in [0.3f64, -1.1, 2.5, std::f64::consts::FRAC_PI_2, 1e-9] {
        let (cc, ss) = (eps.cos(), eps.sin());
        let mut po = math.new_array();
        let mut v2 = vecof(&mut math, &vel);
        math.std_norm_flow(&vp, &mut po, &mut v2, eps);
        let (gp, gv) = (tov(&mut math, &po), tov(&mut math, &v2));
        for i in 0..n {
            if !near(gp[i], pos[i] * cc, vel[i] * ss) || !near(gv[i], vel[i] * cc, -pos[i] * ss) {
                return Err(format!("std_norm_flow n={n} eps={eps} element {i}: ({}, {}) instead of {:?}", gp[i], gv[i], rot_ref(pos[i], vel[i], cc, ss)));
            }
        }
        // the input position is not written
        if tov(&mut math, &vp) != pos {
            return Err(format!("std_norm_flow n={n} eps={eps} wrote to its input"));
        }
        checks += 1;
    }
    Ok(checks)
}

fn flowspecial_case(c: &J) -> Result<usize, String> {
    let n = c["n"].as_u64().unwrap() as usize;
    let k = c["k"].as_u64().unwrap() as usize - 1;
    let sp = special(c["sp"].as_str().unwrap());
    let mut math = CpuMath::new(DummyLogp { dim: n });
    let (mut pos, vel, grad) = (ints(&c["pos"]), ints(&c["vel"]), ints(&c["grad"]));
    pos[k] = sp;
    let (vp, vg, vv) = (vecof(&mut math, &pos), vecof(&mut math, &grad), vecof(&mut math, &vel));
    let mut checks = 0;
    for (key, want) in c["rot"].as_object().unwrap() {
        let (sc, ss) = parse_pair(key);
        let eps = eps_for(sc, ss);
        let (cc, sn) = (eps.cos(), eps.sin());
        let mut po = math.new_array();
        let mut v2 = vecof(&mut math, &vel);
        math.std_norm_flow(&vp, &mut po, &mut v2, eps);
        let (gp, gv) = (tov(&mut math, &po), tov(&mut math, &v2));
        for i in 0..n {
            if i == k {
                if class(gp[i]) != want[0].as_str().unwrap() || class(gv[i]) != want[1].as_str().unwrap() {
                    return Err(format!("std_norm_flow special {} at {k} of {n}, eps={eps}: ({}, {}), specification {want}", c["sp"], gp[i], gv[i]));
                }
            } else if !near(gp[i], pos[i] * cc, vel[i] * sn) || !near(gv[i], vel[i] * cc, -pos[i] * sn) {
                return Err(format!("std_norm_flow eps={eps}: element {i} of {n} disturbed by the special value at {k}"));
            }
        }
        checks += 1;
    }
    for (e2s, want) in c["gradflow"].as_object().unwrap() {
        let eps = e2s.parse::<f64>().unwrap() / 2.0;
        let mut out = math.new_array();
        math.std_norm_grad_flow(&vp, &vg, &vv, &mut out, eps);
        let got = tov(&mut math, &out);
        let mut v2 = vecof(&mut math, &vel);
        math.std_norm_grad_flow_inplace(&vp, &vg, &mut v2, eps);
        let got2 = tov(&mut math, &v2);
        for i in 0..n {
            if i == k {
                if class(got[i]) != want.as_str().unwrap() || class(got2[i]) != want.as_str().unwrap() {
                    return Err(format!("std_norm_grad_flow special {} at {k} of {n}, eps={eps}: {} / {}, specification {want}", c["sp"], got[i], got2[i]));
                }
            } else if got[i] != vel[i] + eps * (pos[i] + grad[i]) || got2[i] != got[i] {
                return Err(format!("std_norm_grad_flow eps={eps}: element {i} of {n} disturbed by the special value at {k}"));
            }
        }
        checks += 2;
    }
    Ok(checks)
}

fn lowrank_with(math: &mut CpuMath<DummyLogp>, n: usize, cols: &[Vec<f64>], vals: &[f64], rhs: &[f64], want: &[f64], scale: f64, what: &str) -> Result<(), String> {
    // the result is a function of the arguments, not of what this backend applied before: first apply a transformation of
    // a larger rank on the same backend (the rank of the eigenvector matrix shrinks between two calls whenever an
    // adaptation window keeps fewer eigenvalues than the previous one)
    let bigger = (cols.len() + 2).min(n);
    if bigger > cols.len() {
        let bc: Vec<Vec<f64>> = (0..bigger).map(|j| { let mut c = vec![0.0; n]; c[j] = 1.0; c }).collect();
        let bv = math.new_eig_vectors(bc.iter().map(|c| c.as_slice()));
        let be = math.new_eig_values(&vec![2.0; bigger]);
        let vr0 = vecof(math, rhs);
        let mut d0 = math.new_array();
        math.apply_lowrank_transform(&bv, &be, &vr0, &mut d0);
        let mut i0 = vecof(math, rhs);
        math.apply_lowrank_transform_inplace(&bv, &be, &mut i0);
    }
    let vecs = math.new_eig_vectors(cols.iter().map(|c| c.as_slice()));
    let ev = math.new_eig_values(vals);
    let vr = vecof(math, rhs);
    let mut dest = math.new_array();
    math.apply_lowrank_transform(&vecs, &ev, &vr, &mut dest);
    let got: Vec<f64> = tov(math, &dest).iter().map(|v| v * scale).collect();
    if got != want {
        return Err(format!("apply_lowrank_transform {what} n={n} rank={}: {got:?} vs {want:?}", cols.len()));
    }
    let mut inpl = vecof(math, rhs);
    math.apply_lowrank_transform_inplace(&vecs, &ev, &mut inpl);
    let got: Vec<f64> = tov(math, &inpl).iter().map(|v| v * scale).collect();
    if got != want {
        return Err(format!("apply_lowrank_transform_inplace {what} n={n} rank={}: {got:?} vs {want:?}", cols.len()));
    }
    if tov(math, &vr) != rhs {
        return Err(format!("apply_lowrank_transform {what} n={n} wrote to its input"));
    }
    Ok(())
}

fn lowrank_case(c: &J) -> Result<usize, String> {
    let n = c["n"].as_u64().unwrap() as usize;
    let mut math = CpuMath::new(DummyLogp { dim: n });
    let cols: Vec<Vec<f64>> = c["cols"].as_array().unwrap().iter().map(|p| {
        let mut col = vec![0.0; n];
        col[p[0].as_u64().unwrap() as usize - 1] = p[1].as_f64().unwrap();
        col
    }).collect();
    lowrank_with(&mut math, n, &cols, &ints(&c["vals"]), &ints(&c["rhs"]), &ints(&c["out"]), 1.0, "coordinate columns")?;
    Ok(3)
}

fn had_case(c: &J) -> Result<usize, String> {
    const H4: [[f64; 4]; 4] = [[1., 1., 1., 1.], [1., -1., 1., -1.], [1., 1., -1., -1.], [1., -1., -1., 1.]];
    let n = c["n"].as_u64().unwrap() as usize;
    let b = c["b"].as_u64().unwrap() as usize - 1;
    let mut math = CpuMath::new(DummyLogp { dim: n });
    let cols: Vec<Vec<f64>> = c["js"].as_array().unwrap().iter().map(|j| {
        let mut col = vec![0.0; n];
        for t in 0..4 {
            col[b + t] = 0.5 * H4[j.as_u64().unwrap() as usize - 1][t];
        }
        col
    }).collect();
    let (vals, rhs, stds) = (ints(&c["vals"]), ints(&c["rhs"]), ints(&c["stds"]));
    lowrank_with(&mut math, n, &cols, &vals, &rhs, &ints(&c["out4"]), 4.0, "Hadamard columns")?;
    let vecs = math.new_eig_vectors(cols.iter().map(|c| c.as_slice()));
    let ev = math.new_eig_values(&vals);
    let (vr, vs) = (vecof(&mut math, &rhs), vecof(&mut math, &stds));
    let mut dest = math.new_array();
    math.array_mult_eigs(&vs, &vr, &mut dest, &vecs, &ev);
    let got: Vec<f64> = tov(&mut math, &dest).iter().map(|v| v * 4.0).collect();
    if got != ints(&c["eigs4"]) {
        return Err(format!("array_mult_eigs n={n} b={b} rank={}: {got:?} vs {}", cols.len(), c["eigs4"]));
    }
    Ok(4)
}

pub fn main(args: &[String]) -> i32 {
    let path = args.first().cloned().unwrap_or("-".into());
    let reader: Box<dyn BufRead> = if path == "-" {
        Box::new(std::io::BufReader::new(std::io::stdin()))
    } else {
        Box::new(std::io::BufReader::new(std::fs::File::open(&path).expect("open")))
    };
    std::panic::set_hook(Box::new(|_| {}));
    let (mut cases, mut checks, mut lens) = (0usize, 0usize, std::collections::BTreeSet::new());
    let mut failures: Vec<J> = vec![];
    let mut samples = vec![];
    for line in reader.lines() {
        let line = line.expect("read");
        let Some(pos) = line.find("<<\"REPLAY\", ") else { continue };
        let inner = line[pos + 12..].trim_end().trim_end_matches(">>");
        let Ok(s) = serde_json::from_str::<String>(inner) else { continue };
        let Ok(c) = serde_json::from_str::<J>(&s) else { continue };
        cases += 1;
        lens.insert(c["n"].as_u64().unwrap_or(0));
        let r = std::panic::catch_unwind(std::panic::AssertUnwindSafe(|| {
            match c["kind"].as_str().unwrap_or("") {
                "exact" => exact_case(&c),
                "flow" => flow_case(&c),
                "flowspecial" => flowspecial_case(&c),
                "lowrank" => lowrank_case(&c),
                "had" => had_case(&c),
                _ => special_case(&c),
            }
        }));
        match r {
            Ok(Ok(k)) => {
                checks += k;
                if samples.len() < 2 && c["n"].as_u64().unwrap_or(0) == 5 {
                    samples.push(c.clone());
                }
            }
            Ok(Err(e)) => failures.push(json!({"mismatch": e})),
            Err(p) => failures.push(json!({"mismatch": format!("panic: {}", crate::record::panic_msg(&p))})),
        }
    }
    let summary = json!({"cases": cases, "checks": checks, "lengths": lens.len(), "failures": failures.len(),
        "first_failures": failures.iter().take(5).collect::<Vec<_>>(), "samples": samples});
    if let Some(p) = args.get(1) {
        std::fs::File::create(p).unwrap().write_all(summary.to_string().as_bytes()).unwrap();
    }
    println!("{}", json!({"cases": cases, "checks": checks, "lengths": lens.len(), "failures": failures.len()}));
    if let Some(f) = failures.first() {
        eprintln!("first mismatch: {}", f["mismatch"]);
        return 1;
    }
    0
}
