//! C02 binding: replay the lattice cases of MC_Lattice into the real transformations and the real
//! leapfrog integrator. All inputs are small dyadic rationals, so IEEE double arithmetic is exact and
//! every comparison is bit-exact (the energy change, which involves the irrational log-determinant
//! through rounding, is compared at 1e-12).

use std::collections::HashMap;
use std::io::{BufRead, Write};

use nuts_rs::verif::{self, Collector, Direction, Hamiltonian, LeapfrogResult, TransformedHamiltonian, TransformedPoint};
use nuts_rs::{CpuLogpFunc, CpuMath, CpuMathError, HasDims, KineticEnergyKind, LogpError, Math};
use serde_json::{Value as J, json};

#[derive(Debug, Clone)]
pub struct QuadLogp {
    pub p: Vec<Vec<f64>>,
    pub m: Vec<f64>,
    /// coefficient of an added quartic term -lambda * sum r_i^4 / 4 (0 = Gaussian)
    pub quartic: f64,
}
#[derive(Debug, thiserror::Error)]
#[error("never")]
pub struct Never;
impl LogpError for Never {
    fn is_recoverable(&self) -> bool {
        false
    }
}
impl HasDims for QuadLogp {
    fn dim_sizes(&self) -> HashMap<String, u64> {
        HashMap::from([("unconstrained_parameter".to_string(), self.m.len() as u64)])
    }
}
impl CpuLogpFunc for QuadLogp {
    type LogpError = Never;
    type FlowParameters = ();
    type ExpandedVector = Vec<f64>;
    fn dim(&self) -> usize {
        self.m.len()
    }
    fn logp(&mut self, x: &[f64], g: &mut [f64]) -> Result<f64, Never> {
        let n = x.len();
        let r: Vec<f64> = (0..n).map(|i| x[i] - self.m[i]).collect();
        let mut lp = 0.0;
        let mut q4 = 0.0;
        for i in 0..n {
            let pr: f64 = (0..n).map(|j| self.p[i][j] * r[j]).sum();
            g[i] = -pr - self.quartic * r[i] * r[i] * r[i];
            lp += r[i] * pr;
            q4 += r[i] * r[i] * r[i] * r[i];
        }
        Ok(-0.5 * lp - self.quartic * q4 / 4.0)
    }
    fn expand_vector<R: nuts_rs::rand::Rng + ?Sized>(&mut self, _r: &mut R, a: &[f64]) -> Result<Vec<f64>, CpuMathError> {
        Ok(a.to_vec())
    }
}

fn q(j: &J) -> f64 {
    j[0].as_f64().unwrap() / j[1].as_f64().unwrap()
}
fn qv(j: &J) -> Vec<f64> {
    j.as_array().map(|a| a.iter().map(q).collect()).unwrap_or_default()
}
fn same(a: &[f64], b: &[f64]) -> bool {
    a.len() == b.len() && a.iter().zip(b).all(|(x, y)| x.to_bits() == y.to_bits() || (*x == 0.0 && *y == 0.0))
}
fn jv(j: &J) -> Vec<f64> {
    j.as_array().unwrap().iter().map(|x| x.as_f64().unwrap_or(f64::NAN)).collect()
}

struct Null;
impl<M: Math> Collector<M, TransformedPoint<M>> for Null {}

fn run_with<T: nuts_rs::verif::Transformation<CpuMath<QuadLogp>>>(
    mut math: CpuMath<QuadLogp>,
    transformation: T,
    case: &J,
    label: &str,
) -> Result<(), String> {
    let c = &case["c"];
    let eps = q(&c["eps"]);
    let dir = if eps > 0.0 { Direction::Forward } else { Direction::Backward };
    let back = if eps > 0.0 { Direction::Backward } else { Direction::Forward };
    let mut ham = TransformedHamiltonian::new(&mut math, transformation, KineticEnergyKind::Euclidean);
    *ham.step_size_mut() = eps.abs();
    let x0 = qv(&case["x0"]);
    let mut state = match ham.init_state(&mut math, &x0) {
        Ok(s) => s,
        Err(e) => {
            // init_state rejects start points with an exactly zero gradient component; such cases are skipped
            let g0 = qv(&case["gy0"]);
            if g0.iter().any(|x| *x == 0.0) {
                return Err("SKIP".into());
            }
            return Err(format!("{label}: init_state: {e}"));
        }
    };
    let d0 = verif::point_dump(&mut math, &state);
    let chk = |what: &str, got: &J, want: &J| -> Result<(), String> {
        if same(&jv(got), &qv(want)) { Ok(()) } else { Err(format!("{label}: {what}: implementation {got} specification {want}")) }
    };
    chk("whitened start position F^-1(x0)", &d0["y"], &c["y"])?;
    chk("gradient at start", &d0["gx"], &case["gx0"])?;
    chk("pulled-back gradient at start", &d0["gy"], &case["gy0"])?;
    if d0["logp"].as_f64().unwrap().to_bits() != q(&case["logp0"]).to_bits() && q(&case["logp0"]) != 0.0 {
        return Err(format!("{label}: logp at start {} vs {}", d0["logp"], q(&case["logp0"])));
    }
    // the re-normalisation of an already evaluated point (used when a point's whitened coordinates are stale after the
    // transformation changed) gives the same whitened position and pulled-back gradient as the full evaluation
    {
        let gx0 = jv(&d0["gx"]);
        let (mut xv, mut gv) = (math.new_array(), math.new_array());
        math.read_from_slice(&mut xv, &x0);
        math.read_from_slice(&mut gv, &gx0);
        let (mut y, mut gy) = (math.new_array(), math.new_array());
        match ham.transformation().inv_transform_normalize(&mut math, &xv, &gv, &mut y, &mut gy) {
            Ok(_) => {
                chk("whitened position from inv_transform_normalize", &json!(math.box_array(&y).to_vec()), &c["y"])?;
                chk("pulled-back gradient from inv_transform_normalize", &json!(math.box_array(&gy).to_vec()), &case["gy0"])?;
            }
            Err(e) => return Err(format!("{label}: inv_transform_normalize: {e:?}")),
        }
    }
    let v0 = qv(&c["v"]);
    verif::point_set_velocity(&mut math, &mut state, &v0);
    let mut rng = <nuts_rs::rand::rngs::ChaCha8Rng as nuts_rs::rand::SeedableRng>::seed_from_u64(0);
    ham.initialize_trajectory(&mut math, &mut state, false, &mut rng).map_err(|e| format!("{label}: {e}"))?;
    let e0 = state.point_energy();
    let out = match ham.leapfrog(&mut math, &state, dir, 1.0, e0, 1e300, &mut Null) {
        LeapfrogResult::Ok(s) => s,
        _ => return Err(format!("{label}: leapfrog did not return Ok")),
    };
    let d1 = verif::point_dump(&mut math, &out);
    let o = &case["out"];
    chk("whitened position after the step", &d1["y"], &o["y"])?;
    chk("velocity after the step", &d1["v"], &o["v"])?;
    chk("position after the step", &d1["x"], &o["x"])?;
    chk("gradient after the step", &d1["gx"], &o["gx"])?;
    chk("pulled-back gradient after the step", &d1["gy"], &o["gy"])?;
    let want_idx = if eps > 0.0 { 1 } else { -1 };
    if d1["idx"].as_i64() != Some(want_idx) {
        return Err(format!("{label}: index after the step {} (want {want_idx})", d1["idx"]));
    }
    if case["hasE"] == true {
        let de = d1["energy"].as_f64().unwrap() - d0_energy(&mut math, &state);
        let want = q(&case["dE"]);
        if (de - want).abs() > 1e-12 * (1.0 + want.abs()) {
            return Err(format!("{label}: energy change {de} vs specification {want}"));
        }
        let turn = ham.is_turning(&mut math, &state, &out);
        let turn2 = ham.is_turning(&mut math, &out, &state);
        if turn != turn2 {
            return Err(format!("{label}: is_turning is not symmetric in its arguments"));
        }
        if turn != (case["turn"] == 1) {
            return Err(format!("{label}: is_turning = {turn}, specification {}", case["turn"]));
        }
    }
    // time reversal: a step back returns to the start exactly
    let backstate = match ham.leapfrog(&mut math, &out, back, 1.0, e0, 1e300, &mut Null) {
        LeapfrogResult::Ok(s) => s,
        _ => return Err(format!("{label}: backward leapfrog did not return Ok")),
    };
    let d2 = verif::point_dump(&mut math, &backstate);
    chk("position after forward+backward", &d2["x"], &case["x0"])?;
    chk("whitened position after forward+backward", &d2["y"], &c["y"])?;
    chk("velocity after forward+backward", &d2["v"], &c["v"])?;
    Ok(())
}

/// Relational checks for the integrators whose step is not rational (ExactNormal: rotation by eps;
/// Microcanonical: ESH update): a forward step followed by a backward step returns the start (1e-9),
/// and ExactNormal conserves the energy on an exactly whitened standard normal target (1e-12).
fn run_relational<T: nuts_rs::verif::Transformation<CpuMath<QuadLogp>>>(
    mut math: CpuMath<QuadLogp>,
    transformation: T,
    case: &J,
    kind: KineticEnergyKind,
    standard_normal: bool,
) -> Result<(), String> {
    let c = &case["c"];
    let eps = q(&c["eps"]);
    let dir = if eps > 0.0 { Direction::Forward } else { Direction::Backward };
    let back = if eps > 0.0 { Direction::Backward } else { Direction::Forward };
    let mut ham = TransformedHamiltonian::new(&mut math, transformation, kind);
    *ham.step_size_mut() = eps.abs();
    let x0 = qv(&case["x0"]);
    let Ok(mut state) = ham.init_state(&mut math, &x0) else { return Err("SKIP".into()) };
    let mut v0 = qv(&c["v"]);
    if kind == KineticEnergyKind::Microcanonical {
        let n: f64 = v0.iter().map(|x| x * x).sum::<f64>().sqrt();
        if n == 0.0 || v0.len() < 2 {
            return Err("SKIP".into());
        }
        v0.iter_mut().for_each(|x| *x /= n);
    }
    verif::point_set_velocity(&mut math, &mut state, &v0);
    let mut rng = <nuts_rs::rand::rngs::ChaCha8Rng as nuts_rs::rand::SeedableRng>::seed_from_u64(0);
    ham.initialize_trajectory(&mut math, &mut state, false, &mut rng).map_err(|e| format!("{e}"))?;
    let e0 = state.point_energy();
    let LeapfrogResult::Ok(out) = ham.leapfrog(&mut math, &state, dir, 1.0, e0, 1e300, &mut Null) else {
        // e.g. an exactly zero gradient on the lattice (ESH divides by |g|): reported as a divergence
        return Err("SKIP".into());
    };
    let LeapfrogResult::Ok(ret) = ham.leapfrog(&mut math, &out, back, 1.0, e0, 1e300, &mut Null) else {
        return Err("SKIP".into());
    };
    let (a, b) = (verif::point_dump(&mut math, &state), verif::point_dump(&mut math, &ret));
    if kind == KineticEnergyKind::Microcanonical {
        // the ESH map contracts the momentum towards the gradient like exp(-d), d = step*|g|/(n-1); for large
        // d its inverse cannot be recovered in double precision, so only well-conditioned steps are checked
        let n = v0.len() as f64;
        let o = verif::point_dump(&mut math, &out);
        for dump in [&a, &o] {
            let g: f64 = jv(&dump["gy"]).iter().map(|x| x * x).sum::<f64>().sqrt();
            if n.sqrt() * eps.abs() / 2.0 * g / (n - 1.0) > 4.0 {
                return Err("SKIP".into());
            }
        }
    }
    for f in ["x", "y", "v"] {
        let (u, w) = (jv(&a[f]), jv(&b[f]));
        let scale = 1.0 + u.iter().fold(0.0f64, |m, x| m.max(x.abs()));
        // the ESH update goes through exp(-d): its inverse is ill-conditioned for large steps
        let tol = if kind == KineticEnergyKind::Microcanonical { 1e-6 } else { 1e-9 };
        if u.iter().zip(&w).any(|(p, r)| (p - r).abs() > tol * scale) {
            return Err(format!("{kind:?}: forward then backward step does not return the start: {f} {u:?} -> {w:?}"));
        }
    }
    // The energy is additive along a trajectory: the change over the second step of a two-step trajectory is the change
    // over the same step taken as the first step of a fresh trajectory (for the Microcanonical kind the kinetic part is an
    // accumulated quantity, so this is not automatic).
    if let LeapfrogResult::Ok(out2) = ham.leapfrog(&mut math, &out, dir, 1.0, e0, 1e300, &mut Null) {
        let o1 = verif::point_dump(&mut math, &out);
        let o2 = verif::point_dump(&mut math, &out2);
        let x1 = jv(&o1["x"]);
        if let Ok(mut fresh) = ham.init_state(&mut math, &x1) {
            verif::point_set_velocity(&mut math, &mut fresh, &jv(&o1["v"]));
            ham.initialize_trajectory(&mut math, &mut fresh, false, &mut rng).map_err(|e| format!("{e}"))?;
            let f1 = verif::point_dump(&mut math, &fresh);
            if let LeapfrogResult::Ok(fresh2) = ham.leapfrog(&mut math, &fresh, dir, 1.0, fresh.point_energy(), 1e300, &mut Null) {
                let f2 = verif::point_dump(&mut math, &fresh2);
                let en = |d: &J| d["energy"].as_f64().unwrap_or(f64::NAN);
                let (d_traj, d_fresh) = (en(&o2) - en(&o1), en(&f2) - en(&f1));
                let scale = 1.0 + en(&o1).abs() + en(&o2).abs() + en(&f1).abs() + en(&f2).abs();
                if d_traj.is_finite() && d_fresh.is_finite() && (d_traj - d_fresh).abs() > 1e-9 * scale {
                    return Err(format!(
                        "{kind:?}: energy is not additive along the trajectory: second step changes it by {d_traj}, the same step from a fresh start by {d_fresh}"));
                }
            }
        }
    }
    // Volume preservation: the Jacobian determinant of (x, v) -> (x', v') is one (central differences; the
    // Microcanonical map lives on a sphere and is not included).
    let dim = x0.len();
    if kind != KineticEnergyKind::Microcanonical && dim <= 4 {
        let mut step = |x: &[f64], v: &[f64]| -> Option<Vec<f64>> {
            let mut st = ham.init_state(&mut math, x).ok()?;
            verif::point_set_velocity(&mut math, &mut st, v);
            ham.initialize_trajectory(&mut math, &mut st, false, &mut rng).ok()?;
            let e = st.point_energy();
            let LeapfrogResult::Ok(o) = ham.leapfrog(&mut math, &st, dir, 1.0, e, 1e300, &mut Null) else { return None };
            let d = verif::point_dump(&mut math, &o);
            let mut r = jv(&d["x"]);
            r.extend(jv(&d["v"]));
            Some(r)
        };
        let n2 = 2 * dim;
        let base: Vec<f64> = x0.iter().chain(v0.iter()).cloned().collect();
        let scale = 1.0 + base.iter().fold(0.0f64, |m, x| m.max(x.abs()));
        // five-point stencil (error O(h^4))
        let h = 1e-3 * scale;
        let mut jac = vec![vec![0.0; n2]; n2];
        let mut ok = true;
        for j in 0..n2 {
            let mut at = |k: f64| -> Option<Vec<f64>> {
                let mut p = base.clone();
                p[j] += k * h;
                step(&p[..dim], &p[dim..])
            };
            match (at(2.0), at(1.0), at(-1.0), at(-2.0)) {
                (Some(p2), Some(p1), Some(m1), Some(m2)) => {
                    for i in 0..n2 {
                        jac[i][j] = (-p2[i] + 8.0 * p1[i] - 8.0 * m1[i] + m2[i]) / (12.0 * h);
                    }
                }
                _ => ok = false,
            }
        }
        if ok {
            // determinant by elimination with partial pivoting
            let mut det = 1.0;
            let mut m = jac;
            for c in 0..n2 {
                let p = (c..n2).max_by(|a, b| m[*a][c].abs().partial_cmp(&m[*b][c].abs()).unwrap()).unwrap();
                if m[p][c] == 0.0 {
                    det = 0.0;
                    break;
                }
                if p != c {
                    m.swap(p, c);
                    det = -det;
                }
                det *= m[c][c];
                for r in c + 1..n2 {
                    let f = m[r][c] / m[c][c];
                    for k in c..n2 {
                        m[r][k] -= f * m[c][k];
                    }
                }
            }
            if det.is_finite() && (det - 1.0).abs() > 1e-6 {
                return Err(format!("{kind:?}: the step is not volume preserving: Jacobian determinant {det}"));
            }
        }
    }
    if standard_normal && kind == KineticEnergyKind::ExactNormal {
        let de = verif::point_dump(&mut math, &out)["energy"].as_f64().unwrap() - a["energy"].as_f64().unwrap();
        if de.abs() > 1e-12 * (1.0 + a["energy"].as_f64().unwrap().abs()) {
            return Err(format!("ExactNormal does not conserve the energy on a standard normal target: dE = {de}"));
        }
    }
    Ok(())
}

fn d0_energy(math: &mut CpuMath<QuadLogp>, s: &nuts_rs::verif::State<CpuMath<QuadLogp>, TransformedPoint<CpuMath<QuadLogp>>>) -> f64 {
    verif::point_dump(math, s)["energy"].as_f64().unwrap()
}

trait PE {
    fn point_energy(&self) -> f64;
}
impl PE for nuts_rs::verif::State<CpuMath<QuadLogp>, TransformedPoint<CpuMath<QuadLogp>>> {
    fn point_energy(&self) -> f64 {
        self.energy()
    }
}

pub fn replay_case(case: &J) -> Result<usize, String> {
    let c = &case["c"];
    let t = &c["T"];
    let d = c["y"].as_array().unwrap().len();
    let p: Vec<Vec<f64>> = c["P"].as_array().unwrap().iter().map(qv).collect();
    let logp = QuadLogp { p, m: qv(&c["m"]), quartic: 0.0 };
    let sigma = qv(&t["sigma"]);
    let mean = qv(&t["mean"]);
    let mu = qv(&t["mu"]);
    let u: Vec<Vec<f64>> = t["U"].as_array().map(|a| a.iter().map(qv).collect()).unwrap_or_default();
    let s = qv(&t["s"]);
    let rank = u.len();
    let mut variants = 0;
    if rank == 0 && mu.iter().all(|x| *x == 0.0) {
        let mut math = CpuMath::new(logp.clone());
        let mm = verif::diag_mass_matrix(&mut math, &sigma, &mean);
        run_with(math, mm, case, "diagonal")?;
        variants += 1;
    }
    {
        let mut math = CpuMath::new(logp.clone());
        let mut lr = verif::low_rank_mass_matrix(&mut math);
        let stds = faer::Col::from_fn(d, |i| sigma[i]);
        let meanc = faer::Col::from_fn(d, |i| mean[i]);
        let vals = faer::Col::from_fn(rank, |k| s[k] * s[k]);
        let vecs = faer::Mat::from_fn(d, rank, |i, k| u[k][i]);
        let muc = faer::Col::from_fn(d, |i| mu[i]);
        lr.update(&mut math, stds, meanc, vals, vecs, muc);
        run_with(math, lr, case, "low-rank")?;
        variants += 1;
    }
    // relational checks for the non-rational integrators (diagonal / low-rank as the case prescribes)
    let standard = sigma.iter().all(|x| *x == 1.0) && mean.iter().all(|x| *x == 0.0) && rank == 0
        && mu.iter().all(|x| *x == 0.0)
        && logp.m.iter().all(|x| *x == 0.0)
        && (0..d).all(|i| (0..d).all(|j| logp.p[i][j] == if i == j { 1.0 } else { 0.0 }));
    let plans = [
        (KineticEnergyKind::ExactNormal, 0.0),
        (KineticEnergyKind::Microcanonical, 0.0),
        // the same properties on a density that is not Gaussian (quartic term added)
        (KineticEnergyKind::Euclidean, 0.25),
        (KineticEnergyKind::ExactNormal, 0.25),
        (KineticEnergyKind::Microcanonical, 0.25),
    ];
    for (kind, quartic) in plans {
        // keep the cubic part of the gradient comparable to the linear one at the points of this case
        let x0c = qv(&case["x0"]);
        let r2 = x0c.iter().zip(&logp.m).map(|(a, b)| (a - b) * (a - b)).fold(0.0f64, f64::max);
        let mut math = CpuMath::new(QuadLogp { quartic: quartic / (1.0 + r2), ..logp.clone() });
        let mut lr = verif::low_rank_mass_matrix(&mut math);
        lr.update(
            &mut math,
            faer::Col::from_fn(d, |i| sigma[i]),
            faer::Col::from_fn(d, |i| mean[i]),
            faer::Col::from_fn(rank, |k| s[k] * s[k]),
            faer::Mat::from_fn(d, rank, |i, k| u[k][i]),
            faer::Col::from_fn(d, |i| mu[i]),
        );
        match run_relational(math, lr, case, kind, standard && quartic == 0.0) {
            Ok(()) => variants += 1,
            Err(e) if e == "SKIP" => {}
            Err(e) => return Err(e),
        }
    }
    Ok(variants)
}

pub fn main(args: &[String]) -> i32 {
    let path = args.first().cloned().unwrap_or("-".into());
    let reader: Box<dyn BufRead> = if path == "-" {
        Box::new(std::io::BufReader::new(std::io::stdin()))
    } else {
        Box::new(std::io::BufReader::new(std::fs::File::open(&path).expect("open")))
    };
    std::panic::set_hook(Box::new(|_| {}));
    let (mut total, mut runs, mut skipped) = (0usize, 0usize, 0usize);
    let mut failures: Vec<J> = vec![];
    let mut samples: Vec<J> = vec![];
    let mut dims: HashMap<usize, usize> = HashMap::new();
    for line in reader.lines() {
        let line = line.expect("read");
        let Some(pos) = line.find("<<\"REPLAY\", ") else { continue };
        let inner = line[pos + 12..].trim_end().trim_end_matches(">>");
        let Ok(s) = serde_json::from_str::<String>(inner) else { continue };
        let Ok(case) = serde_json::from_str::<J>(&s) else { continue };
        total += 1;
        *dims.entry(case["c"]["y"].as_array().map(|a| a.len()).unwrap_or(0)).or_insert(0) += 1;
        let r = std::panic::catch_unwind(std::panic::AssertUnwindSafe(|| replay_case(&case)));
        match r {
            Ok(Ok(n)) => {
                runs += n;
                if samples.len() < 2 {
                    samples.push(case.clone());
                }
            }
            Ok(Err(e)) if e == "SKIP" => skipped += 1,
            Ok(Err(e)) => failures.push(json!({"mismatch": e, "case": case})),
            Err(p) => failures.push(json!({"mismatch": format!("panic: {}", crate::record::panic_msg(&p)), "case": case})),
        }
    }
    let summary = json!({"cases": total, "runs": runs, "skipped_zero_gradient": skipped, "failures": failures.len(), "dims": dims.iter().map(|(k, v)| json!([k, v])).collect::<Vec<_>>(),
        "first_failures": failures.iter().take(4).collect::<Vec<_>>(), "samples": samples});
    if let Some(p) = args.get(1) {
        std::fs::File::create(p).unwrap().write_all(summary.to_string().as_bytes()).unwrap();
    }
    println!("{}", json!({"cases": total, "runs": runs, "skipped": skipped, "failures": failures.len()}));
    if let Some(f) = failures.first() {
        eprintln!("first mismatch: {}", f["mismatch"]);
        return 1;
    }
    0
}
