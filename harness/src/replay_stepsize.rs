//! C07 binding (update clause): the exact `hbar` / smoothed-error sequences of StepSizeUpdate.tla
//! against the real `DualAverage` and `Adam` estimators.

use std::io::{BufRead, Write};

use nuts_rs::verif::{Adam, DualAverage};
use nuts_rs::StepSizeAdaptOptions;
use serde_json::{Value as J, json};

fn q(j: &J) -> f64 {
    j[0].as_f64().unwrap() / j[1].as_f64().unwrap()
}
fn qs(j: &J) -> Vec<f64> {
    j.as_array().unwrap().iter().map(q).collect()
}
fn close(a: f64, b: f64, rel: f64) -> bool {
    (a - b).abs() <= rel * a.abs().max(b.abs()).max(1e-300)
}

/// parameter sets the histories are run under: (gamma, k, max_step, initial_step)
const PARAMS: &[(f64, f64, f64, f64)] = &[
    (0.05, 0.75, std::f64::consts::PI, 0.1),
    (0.05, 0.75, 0.5, 0.2),
    (0.5, 0.5, 10.0, 3.0),
    (0.01, 1.0, 1e-3, 1e-5),
    (2.0, 0.6, 1e6, 1e3),
];

fn run_dual(c: &J, p: (f64, f64, f64, f64), hist: &[f64], hbar: &[f64]) -> Result<Vec<f64>, String> {
    let (gamma, k, max_step, initial) = p;
    let target = q(&c["target"]);
    let t0 = c["t0"].as_f64().unwrap();
    let mut o = StepSizeAdaptOptions::default().dual_average;
    o.gamma = gamma;
    o.k = k;
    o.t0 = t0;
    o.max_step_size = max_step;
    let mut da = DualAverage::new(o, initial);
    let mu = (10.0 * initial).ln();
    let mut steps = vec![];
    let mut xbar = initial.ln();
    for (i, (a, hb)) in hist.iter().zip(hbar).enumerate() {
        let t = (i + 1) as f64;
        da.advance(*a, target);
        let s = da.current_step_size();
        let sb = da.current_step_size_adapted();
        if !(s.is_finite() && s > 0.0 && sb.is_finite() && sb > 0.0) {
            return Err(format!("dual: step not positive finite: {s} {sb} at t={t} params={p:?}"));
        }
        if s > max_step * (1.0 + 1e-12) {
            return Err(format!("dual: step {s} above max_step_size {max_step} at t={t} params={p:?}"));
        }
        // the documented iterate: exp(mu - hbar sqrt(t) / gamma), capped
        let want = (mu - hb * t.sqrt() / gamma).min(max_step.ln());
        if !close(s.ln(), want, 1e-9) && (s.ln() - want).abs() > 1e-9 {
            return Err(format!("dual: iterate {s} is not exp(mu - hbar sqrt(t)/gamma) = {} (hbar={hb}) at t={t} params={p:?}", want.exp()));
        }
        // the documented weighted average of the iterates (in log space, weight t^-k)
        let mk = t.powf(-k);
        xbar = mk * s.ln() + (1.0 - mk) * xbar;
        if (sb.ln() - xbar).abs() > 1e-9 * xbar.abs().max(1.0) {
            return Err(format!("dual: averaged step {sb} is not the weighted average {} at t={t} params={p:?}", xbar.exp()));
        }
        steps.push(s);
        steps.push(sb);
    }
    Ok(steps)
}

fn dual_case(c: &J) -> Result<usize, String> {
    let (a, b) = (qs(&c["a"]), qs(&c["b"]));
    let (hba, hbb) = (qs(&c["hba"]), qs(&c["hbb"]));
    let mut checks = 0;
    for p in PARAMS {
        let sa = run_dual(c, *p, &a, &hba)?;
        let sb = run_dual(c, *p, &b, &hbb)?;
        for (i, (x, y)) in sa.iter().zip(&sb).enumerate() {
            // B's acceptance history is pointwise >= A's: B's step sizes are never smaller
            if *y < *x * (1.0 - 1e-12) {
                return Err(format!(
                    "dual: higher acceptance gave a smaller {} step: {y} < {x} at t={} params={p:?} a={a:?} b={b:?}",
                    if i % 2 == 0 { "current" } else { "averaged" }, i / 2 + 1));
            }
        }
        checks += 5 * sa.len();
    }
    Ok(checks)
}

fn adam_case(c: &J) -> Result<usize, String> {
    let a = qs(&c["a"]);
    let target = q(&c["target"]);
    let signs: Vec<i64> = c["msign"].as_array().unwrap().iter().map(|x| x.as_i64().unwrap()).collect();
    let mut checks = 0;
    for (lr, initial) in [(0.05, 0.1), (0.5, 2.0), (0.001, 1e-4)] {
        let mut o = StepSizeAdaptOptions::default().adam;
        o.learning_rate = lr;
        o.beta1 = 0.9;
        let mut ad = Adam::new(o, initial);
        let mut prev = ad.current_step_size();
        for (i, acc) in a.iter().enumerate() {
            ad.advance(*acc, target);
            let s = ad.current_step_size();
            if !(s.is_finite() && s > 0.0) {
                return Err(format!("adam: step not positive finite: {s} at t={}", i + 1));
            }
            // the step moves up exactly when the smoothed acceptance exceeds the target
            let ok = match signs[i] {
                1 => s > prev,
                -1 => s < prev,
                _ => true,
            };
            if !ok {
                return Err(format!("adam: smoothed error sign {} but step went {prev} -> {s} at t={} lr={lr} a={a:?} target={target}",
                    signs[i], i + 1));
            }
            prev = s;
            checks += 2;
        }
    }
    Ok(checks)
}

pub fn main(args: &[String]) -> i32 {
    let path = args.first().cloned().unwrap_or("-".into());
    let reader: Box<dyn BufRead> = if path == "-" {
        Box::new(std::io::BufReader::new(std::io::stdin()))
    } else {
        Box::new(std::io::BufReader::new(std::fs::File::open(&path).expect("open")))
    };
    std::panic::set_hook(Box::new(|_| {}));
    let (mut cases, mut checks, mut strict) = (0usize, 0usize, 0usize);
    let mut failures: Vec<J> = vec![];
    let mut samples = vec![];
    for line in reader.lines() {
        let line = line.expect("read");
        let Some(pos) = line.find("<<\"REPLAY\", ") else { continue };
        let inner = line[pos + 12..].trim_end().trim_end_matches(">>");
        let Ok(s) = serde_json::from_str::<String>(inner) else { continue };
        let Ok(c) = serde_json::from_str::<J>(&s) else { continue };
        cases += 1;
        if c["a"] != c["b"] {
            strict += 1;
        }
        let r = std::panic::catch_unwind(std::panic::AssertUnwindSafe(|| -> Result<usize, String> {
            Ok(dual_case(&c)? + adam_case(&c)?)
        }));
        match r {
            Ok(Ok(k)) => {
                checks += k;
                if samples.len() < 2 && c["a"] != c["b"] {
                    samples.push(c.clone());
                }
            }
            Ok(Err(e)) => failures.push(json!({"mismatch": e, "case": c})),
            Err(p) => failures.push(json!({"mismatch": format!("panic: {}", crate::record::panic_msg(&p)), "case": c})),
        }
    }
    let summary = json!({"cases": cases, "checks": checks, "strict_pairs": strict, "failures": failures.len(),
        "first_failures": failures.iter().take(5).collect::<Vec<_>>(), "samples": samples});
    if let Some(p) = args.get(1) {
        std::fs::File::create(p).unwrap().write_all(summary.to_string().as_bytes()).unwrap();
    }
    println!("{}", json!({"cases": cases, "checks": checks, "failures": failures.len()}));
    if let Some(f) = failures.first() {
        eprintln!("first mismatch: {}", f["mismatch"]);
        return 1;
    }
    0
}
