//! Test densities with fault injection and a trivial affine "flow" so that all six
//! presets can be driven through the public API.

use std::collections::HashMap;

use nuts_rs::{CpuLogpFunc, CpuMathError, HasDims, LogpError};
use serde::{Deserialize, Serialize};
use serde_json::{Value as J, json};

/// number of unrecoverable faults announced so far in this process (script op `wait_fatal`)
pub static FATAL_FIRED: std::sync::atomic::AtomicU64 = std::sync::atomic::AtomicU64::new(0);

#[derive(Debug, Clone, Serialize, Deserialize, PartialEq)]
#[serde(tag = "kind")]
pub enum Kind {
    /// independent normals: mu_i, sd_i cycle through the given lists
    Normal { mu: Vec<f64>, sd: Vec<f64> },
    /// pairs (x0,x1),(x2,x3).. correlated with rho, unit variances; odd leftover is N(0,1)
    Corr { rho: f64 },
    /// banana: x0 ~ N(0, 1), x_i ~ N(b*(x0^2-1), 1)
    Banana { b: f64 },
    /// funnel: x0 ~ N(0, s^2), x_i ~ N(0, exp(x0))
    Funnel { s: f64 },
    /// independent Student-t with nu degrees of freedom
    StudentT { nu: f64 },
    /// logp = -|x|^4/4 (steep tails: divergences at large steps)
    Quartic,
}

#[derive(Debug, Clone, Copy, Serialize, Deserialize, PartialEq, Eq, Hash)]
pub enum FaultKind {
    RecErr,
    FatalErr,
    NanLogp,
    PosInfLogp,
    NegInfLogp,
    NanGrad,
    InfGrad,
    HugeLogp,
}

pub const ALL_FAULTS: [FaultKind; 8] = [
    FaultKind::RecErr,
    FaultKind::FatalErr,
    FaultKind::NanLogp,
    FaultKind::PosInfLogp,
    FaultKind::NegInfLogp,
    FaultKind::NanGrad,
    FaultKind::InfGrad,
    FaultKind::HugeLogp,
];

#[derive(Debug, thiserror::Error)]
#[error("injected density error (recoverable={recoverable}) at evaluation {k}")]
pub struct TestErr {
    pub recoverable: bool,
    pub k: u64,
}
impl LogpError for TestErr {
    fn is_recoverable(&self) -> bool {
        self.recoverable
    }
}

#[derive(Debug, Clone)]
pub struct AffineFlow {
    pub mu: Vec<f64>,
    pub sigma: Vec<f64>,
    pub id: i64,
}

#[derive(Debug, Clone)]
pub struct TestLogp {
    pub kind: Kind,
    pub dim: usize,
    pub evals: u64,
    /// evaluation index -> fault
    pub faults: HashMap<u64, FaultKind>,
    /// log every evaluation into the thread-local verif sink
    pub log_evals: bool,
    /// busy-wait this many microseconds per evaluation (chains of different speed)
    pub delay_us: u64,
    /// announce an unrecoverable fault in the "sampler" event stream as chain `announce` (C13)
    pub announce: Option<i64>,
    /// after announcing an unrecoverable fault, keep the failing evaluation in flight this long (C13: a failure that
    /// overlaps an abort)
    pub fatal_sleep_ms: u64,
    /// declare only the model's own dimension ("dim"), as a user's model does; the sampler's
    /// `unconstrained_parameter` dimension is then not in the model's table
    pub own_dims_only: bool,
}

impl TestLogp {
    pub fn new(kind: Kind, dim: usize) -> Self {
        TestLogp { kind, dim, evals: 0, faults: HashMap::new(), log_evals: false, delay_us: 0, announce: None, fatal_sleep_ms: 0, own_dims_only: false }
    }

    pub fn eval(&self, x: &[f64], g: &mut [f64]) -> f64 {
        let n = x.len();
        match &self.kind {
            Kind::Normal { mu, sd } => {
                let mut lp = 0.0;
                for i in 0..n {
                    let m = mu[i % mu.len()];
                    let s = sd[i % sd.len()];
                    let z = (x[i] - m) / s;
                    lp -= 0.5 * z * z;
                    g[i] = -z / s;
                }
                lp
            }
            Kind::Corr { rho } => {
                let mut lp = 0.0;
                let det = 1.0 - rho * rho;
                let mut i = 0;
                while i + 1 < n {
                    let (a, b) = (x[i], x[i + 1]);
                    lp -= 0.5 * (a * a - 2.0 * rho * a * b + b * b) / det;
                    g[i] = -(a - rho * b) / det;
                    g[i + 1] = -(b - rho * a) / det;
                    i += 2;
                }
                if i < n {
                    lp -= 0.5 * x[i] * x[i];
                    g[i] = -x[i];
                }
                lp
            }
            Kind::Banana { b } => {
                let x0 = x[0];
                let mut lp = -0.5 * x0 * x0;
                g[0] = -x0;
                let c = b * (x0 * x0 - 1.0);
                for i in 1..n {
                    let r = x[i] - c;
                    lp -= 0.5 * r * r;
                    g[i] = -r;
                    g[0] += r * 2.0 * b * x0;
                }
                lp
            }
            Kind::Funnel { s } => {
                let x0 = x[0];
                let mut lp = -0.5 * x0 * x0 / (s * s);
                g[0] = -x0 / (s * s);
                let prec = (-x0).exp();
                for i in 1..n {
                    lp += -0.5 * x[i] * x[i] * prec - 0.5 * x0;
                    g[i] = -x[i] * prec;
                    g[0] += 0.5 * x[i] * x[i] * prec - 0.5;
                }
                lp
            }
            Kind::StudentT { nu } => {
                let mut lp = 0.0;
                for i in 0..n {
                    let q = 1.0 + x[i] * x[i] / nu;
                    lp -= 0.5 * (nu + 1.0) * q.ln();
                    g[i] = -(nu + 1.0) * x[i] / (nu * q);
                }
                lp
            }
            Kind::Quartic => {
                let mut lp = 0.0;
                for i in 0..n {
                    lp -= 0.25 * x[i].powi(4);
                    g[i] = -x[i].powi(3);
                }
                lp
            }
        }
    }
}

impl HasDims for TestLogp {
    fn dim_sizes(&self) -> HashMap<String, u64> {
        if self.own_dims_only {
            return HashMap::from([("dim".to_string(), self.dim as u64)]);
        }
        HashMap::from([
            ("unconstrained_parameter".to_string(), self.dim as u64),
            ("dim".to_string(), self.dim as u64),
        ])
    }
}

impl CpuLogpFunc for TestLogp {
    type LogpError = TestErr;
    type FlowParameters = AffineFlow;
    type ExpandedVector = Vec<f64>;

    fn dim(&self) -> usize {
        self.dim
    }

    fn logp(&mut self, position: &[f64], gradient: &mut [f64]) -> Result<f64, TestErr> {
        let k = self.evals;
        self.evals += 1;
        if self.delay_us > 0 {
            let t = std::time::Instant::now();
            while t.elapsed().as_micros() < self.delay_us as u128 {
                std::hint::spin_loop();
            }
        }
        let fault = self.faults.get(&k).copied();
        let mut lp = self.eval(position, gradient);
        let mut res: Result<f64, TestErr> = Ok(lp);
        if let Some(f) = fault {
            match f {
                FaultKind::RecErr => res = Err(TestErr { recoverable: true, k }),
                FaultKind::FatalErr => res = Err(TestErr { recoverable: false, k }),
                FaultKind::NanLogp => lp = f64::NAN,
                FaultKind::PosInfLogp => lp = f64::INFINITY,
                FaultKind::NegInfLogp => lp = f64::NEG_INFINITY,
                FaultKind::NanGrad => {
                    if let Some(g0) = gradient.first_mut() {
                        *g0 = f64::NAN
                    }
                }
                FaultKind::InfGrad => {
                    if let Some(g0) = gradient.last_mut() {
                        *g0 = f64::INFINITY
                    }
                }
                FaultKind::HugeLogp => lp -= 1e6,
            }
            if res.is_ok() {
                res = Ok(lp);
            }
        }
        if let (Some(chain), Err(e)) = (self.announce, &res) {
            if !e.recoverable {
                nuts_rs::verif::emit("sampler", || json!({"ev": "fatal_fired", "i": chain, "k": k}));
                FATAL_FIRED.fetch_add(1, std::sync::atomic::Ordering::SeqCst);
                if self.fatal_sleep_ms > 0 {
                    std::thread::sleep(std::time::Duration::from_millis(self.fatal_sleep_ms));
                }
            }
        }
        if self.log_evals {
            nuts_rs::verif::emit("logp", || {
                json!({"ev": "logp", "k": k,
                    "res": match &res { Ok(_) => "ok", Err(e) => if e.recoverable {"rec"} else {"fatal"} },
                    "fault": fault.map(|f| format!("{f:?}")),
                    "ph": nuts_rs::verif::hash_f64s(position),
                    "finite_pos": position.iter().all(|v| v.is_finite())})
            });
        }
        res
    }

    fn expand_vector<R>(&mut self, _rng: &mut R, array: &[f64]) -> Result<Vec<f64>, CpuMathError>
    where
        R: nuts_rs::rand::Rng + ?Sized,
    {
        Ok(array.to_vec())
    }

    // ---- affine flow: x = mu + sigma * y -------------------------------------------
    fn inv_transform_normalize(
        &mut self,
        p: &AffineFlow,
        upos: &[f64],
        ugrad: &[f64],
        tpos: &mut [f64],
        tgrad: &mut [f64],
    ) -> Result<f64, TestErr> {
        let mut logdet = 0.0;
        for i in 0..upos.len() {
            tpos[i] = (upos[i] - p.mu[i]) / p.sigma[i];
            tgrad[i] = ugrad[i] * p.sigma[i];
            logdet -= p.sigma[i].ln();
        }
        Ok(logdet)
    }

    fn init_from_untransformed_position(
        &mut self,
        p: &AffineFlow,
        upos: &[f64],
        ugrad: &mut [f64],
        tpos: &mut [f64],
        tgrad: &mut [f64],
    ) -> Result<(f64, f64), TestErr> {
        let lp = self.logp(upos, ugrad)?;
        let ld = self.inv_transform_normalize(p, upos, ugrad, tpos, tgrad)?;
        Ok((lp, ld))
    }

    fn init_from_transformed_position(
        &mut self,
        p: &AffineFlow,
        upos: &mut [f64],
        ugrad: &mut [f64],
        tpos: &[f64],
        tgrad: &mut [f64],
    ) -> Result<(f64, f64), TestErr> {
        for i in 0..tpos.len() {
            upos[i] = p.mu[i] + p.sigma[i] * tpos[i];
        }
        let lp = self.logp(upos, ugrad)?;
        let mut logdet = 0.0;
        for i in 0..tpos.len() {
            tgrad[i] = ugrad[i] * p.sigma[i];
            logdet -= p.sigma[i].ln();
        }
        Ok((lp, logdet))
    }

    fn update_transformation<'a, R: nuts_rs::rand::Rng + ?Sized>(
        &'a mut self,
        _rng: &mut R,
        positions: impl ExactSizeIterator<Item = &'a [f64]>,
        _gradients: impl ExactSizeIterator<Item = &'a [f64]>,
        _logp: impl ExactSizeIterator<Item = &'a f64>,
        params: &'a mut AffineFlow,
    ) -> Result<(), TestErr> {
        let pos: Vec<&[f64]> = positions.collect();
        if pos.len() < 3 {
            return Ok(());
        }
        let n = pos.len() as f64;
        for i in 0..self.dim {
            let m = pos.iter().map(|p| p[i]).sum::<f64>() / n;
            let v = pos.iter().map(|p| (p[i] - m) * (p[i] - m)).sum::<f64>() / n;
            if v.is_finite() && v > 1e-12 {
                params.mu[i] = m;
                params.sigma[i] = v.sqrt();
            }
        }
        params.id += 1;
        Ok(())
    }

    fn init_transformation<R: nuts_rs::rand::Rng + ?Sized>(
        &mut self,
        _rng: &mut R,
        _upos: &[f64],
        _ugrad: &[f64],
        _chain: u64,
    ) -> Result<AffineFlow, TestErr> {
        Ok(AffineFlow { mu: vec![0.0; self.dim], sigma: vec![1.0; self.dim], id: 0 })
    }

    fn new_transformation<R: nuts_rs::rand::Rng + ?Sized>(
        &mut self,
        _rng: &mut R,
        dim: usize,
        _chain: u64,
    ) -> Result<AffineFlow, TestErr> {
        Ok(AffineFlow { mu: vec![0.0; dim], sigma: vec![1.0; dim], id: 0 })
    }

    fn transformation_id(&self, params: &AffineFlow) -> Result<i64, TestErr> {
        Ok(params.id)
    }
}

pub fn kind_from_json(j: &J) -> Kind {
    serde_json::from_value(j.clone()).unwrap_or(Kind::Normal { mu: vec![0.0], sd: vec![1.0] })
}
