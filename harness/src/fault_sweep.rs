//! C05: fault enumeration. For one scenario: a baseline run counts the density evaluations of
//! set_position + D draws; then one run per (evaluation index, fault kind) (and sampled pairs),
//! each summarised as one line per API call with the faults that fired and their phase.

use std::io::{BufRead, Write};

use serde_json::{Value as J, json};

use crate::density::ALL_FAULTS;
use crate::record::run_scenario;

fn kind_name(k: &str) -> &'static str {
    match k {
        "RecErr" => "rec",
        "FatalErr" => "fatal",
        "NanLogp" => "nanlogp",
        "PosInfLogp" => "posinf",
        "NegInfLogp" => "neginf",
        "NanGrad" => "nangrad",
        "InfGrad" => "infgrad",
        _ => "huge",
    }
}

/// Summarise the raw events of one run: list of calls with the faults that fired in each.
pub fn summarise(evs: &[J]) -> (Vec<J>, u64) {
    let mut calls: Vec<J> = vec![];
    let mut cur_faults: Vec<J> = vec![];
    let mut in_setpos = true;
    let mut in_traj = false;
    let mut nevals = 0u64;
    let n = evs.len();
    for (idx, ev) in evs.iter().enumerate() {
        match ev["ev"].as_str().unwrap_or("") {
            "logp" => {
                nevals += 1;
                if !ev["fault"].is_null() {
                    // is this evaluation part of a leapfrog? -> the next leap/logp event decides
                    let mut is_leap = false;
                    for e2 in evs[idx + 1..n].iter() {
                        match e2["ev"].as_str().unwrap_or("") {
                            "leap" => {
                                is_leap = true;
                                break;
                            }
                            "logp" | "set_position" | "draw_out" | "ret" | "ret_err" | "adapt" => break,
                            _ => {}
                        }
                    }
                    let phase = if in_setpos {
                        if is_leap { "search_step" } else { "init" }
                    } else if in_traj {
                        "traj"
                    } else if is_leap {
                        "research_step"
                    } else {
                        "research_init"
                    };
                    cur_faults.push(json!([phase, kind_name(ev["fault"].as_str().unwrap_or(""))]));
                }
            }
            "traj_init" => in_traj = true,
            "ret" | "ret_err" => in_traj = false,
            "set_position" => {
                calls.push(json!({"e": "setpos", "res": ev["res"], "faults": cur_faults}));
                cur_faults = vec![];
                // a failed initialisation is retried on the same chain: the next evaluations are initialisation again
                in_setpos = ev["res"] != "ok";
            }
            "draw_out" => {
                let ok = ev["res"] == "ok";
                let mut fin = false;
                let mut div = false;
                let mut badstats: Vec<String> = vec![];
                if ok {
                    let logp_fin = ev["stats"]
                        .as_array()
                        .and_then(|a| a.iter().find(|s| s[0] == "logp"))
                        .map(|s| s[1]["fin"] == true)
                        .unwrap_or(false);
                    fin = ev["finite"] == true && logp_fin;
                    div = ev["progress"]["diverging"] == true;
                    // a valid draw also has usable sampler statistics: the step size in force and the acceptance
                    // statistics that drive its adaptation are finite (a NaN here poisons every later draw)
                    if let Some(a) = ev["stats"].as_array() {
                        for s in a {
                            let name = s[0].as_str().unwrap_or("");
                            if matches!(name, "step_size" | "mean_tree_accept" | "mean_tree_accept_sym" | "energy" | "n_steps")
                                && s[1]["t"] == "f64" && s[1]["fin"] == false
                            {
                                badstats.push(name.to_string());
                            }
                        }
                    }
                    let ss = ev["progress"]["step_size_f"].as_f64();
                    if !ss.map(|x| x > 0.0).unwrap_or(false) {
                        badstats.push("progress.step_size".to_string());
                    }
                    if ev["progress"]["num_steps"].as_u64() == Some(0) {
                        badstats.push("progress.num_steps=0".to_string());
                    }
                }
                calls.push(json!({"e": "draw", "n": ev["n"], "res": ev["res"], "div": div, "fin": fin,
                    "badstats": badstats, "faults": cur_faults}));
                cur_faults = vec![];
                in_traj = false;
            }
            _ => {}
        }
    }
    (calls, nevals)
}

/// `vh fault-sweep <scenarios.ndjson> <out.ndjson>`; each scenario may carry "sweep": {"stride": s, "pairs": p}
pub fn main(args: &[String]) -> i32 {
    let inp = std::fs::File::open(&args[0]).expect("open scenarios");
    let scenarios: Vec<J> = std::io::BufReader::new(inp)
        .lines()
        .map(|l| l.unwrap())
        .filter(|l| !l.trim().is_empty())
        .map(|l| serde_json::from_str(&l).expect("scenario json"))
        .collect();
    std::panic::set_hook(Box::new(|_| {}));
    // expand into fault plans
    let mut jobs: Vec<J> = vec![];
    for sc in &scenarios {
        let mut base = sc.clone();
        base["log_evals"] = json!(true);
        base["faults"] = json!([]);
        base["retry_init"] = json!(true);
        let (_, nevals) = summarise(&run_scenario(&base));
        let stride = sc["sweep"]["stride"].as_u64().unwrap_or(1).max(1);
        let offset = sc["sweep"]["offset"].as_u64().unwrap_or(0);
        let mut k = offset % stride;
        while k < nevals {
            for f in ALL_FAULTS.iter() {
                let mut j = base.clone();
                j["faults"] = json!([[k, format!("{f:?}")]]);
                jobs.push(j);
            }
            k += stride;
        }
        // sampled pairs
        let pairs = sc["sweep"]["pairs"].as_u64().unwrap_or(0);
        let mut h = sc["seed"].as_u64().unwrap_or(1) | 1;
        for _ in 0..pairs {
            h ^= h << 13;
            h ^= h >> 7;
            h ^= h << 17;
            let k1 = h % nevals.max(1);
            let k2 = (h >> 20) % nevals.max(1);
            let f1 = ALL_FAULTS[(h >> 40) as usize % 8];
            let f2 = ALL_FAULTS[(h >> 44) as usize % 8];
            let mut j = base.clone();
            j["faults"] = json!([[k1, format!("{f1:?}")], [k2, format!("{f2:?}")]]);
            jobs.push(j);
        }
    }
    let threads = std::env::var("VH_THREADS").ok().and_then(|s| s.parse().ok()).unwrap_or(8usize);
    let n = jobs.len();
    let next = std::sync::atomic::AtomicUsize::new(0);
    let results: Vec<std::sync::Mutex<Option<J>>> = (0..n).map(|_| std::sync::Mutex::new(None)).collect();
    std::thread::scope(|s| {
        for _ in 0..threads.min(n.max(1)) {
            s.spawn(|| {
                loop {
                    let i = next.fetch_add(1, std::sync::atomic::Ordering::SeqCst);
                    if i >= n {
                        break;
                    }
                    let evs = run_scenario(&jobs[i]);
                    let (calls, nevals) = summarise(&evs);
                    let newchain = evs.iter().find(|e| e["ev"] == "new_chain").cloned().unwrap_or(J::Null);
                    *results[i].lock().unwrap() = Some(json!({"calls": calls, "nevals": nevals, "new_chain": newchain}));
                }
            });
        }
    });
    let mut out = std::io::BufWriter::new(std::fs::File::create(&args[1]).expect("create out"));
    for (i, job) in jobs.iter().enumerate() {
        let r = results[i].lock().unwrap().take().unwrap_or(J::Null);
        writeln!(out, "{}", json!({"scenario": {"preset": job["preset"], "dim": job["dim"], "density": job["density"],
            "settings": job["settings"], "seed": job["seed"], "faults": job["faults"]}, "result": r})).unwrap();
    }
    0
}
