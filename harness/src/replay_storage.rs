//! Storage conformance (C14, C15): drive every real storage backend through the crate's
//! StorageConfig / TraceStorage / ChainStorage traits with generated operation sequences
//! (record / flush / inspect / finalize), read the result back with a fresh reader and dump
//! it in a canonical form. Decoding against the abstract log and the comparison with the
//! specification's observation function happen in lib/project.py + Storage.tla.

use std::collections::HashMap;
use std::io::{BufRead, Write};
use std::sync::Arc;

use nuts_rs::verif::{ChainStorage, StorageConfig, TraceStorage};
use nuts_rs::{
    ArrowConfig, CpuLogpFunc, CpuMath, CpuMathError, CsvConfig, DiagMclmcSettings, DiagNutsSettings,
    HasDims, HashMapConfig, HashMapValue, ItemType, LogpError, Math, NdarrayConfig, NdarrayValue, Progress,
    Settings, Storable, Value, ZarrAsyncConfig, ZarrConfig,
};
use serde_json::{Value as J, json};

use crate::record::{bits, panic_msg, patched};

// ----------------------------------------------------------------------------- model
#[derive(Debug, Clone)]
pub struct VarSpec {
    pub name: String,
    pub ty: ItemType,
    pub dims: Vec<(String, usize)>,
}

#[derive(Debug, Clone)]
pub struct StoreLogp {
    pub dim: usize,
    pub vars: Vec<VarSpec>,
}

#[derive(Debug, thiserror::Error)]
#[error("never")]
pub struct Never;
impl LogpError for Never {
    fn is_recoverable(&self) -> bool {
        false
    }
}

impl HasDims for StoreLogp {
    fn dim_sizes(&self) -> HashMap<String, u64> {
        let mut m = HashMap::from([("unconstrained_parameter".to_string(), self.dim as u64)]);
        for v in &self.vars {
            for (d, n) in &v.dims {
                m.insert(d.clone(), *n as u64);
            }
        }
        m
    }
}

pub struct Expanded(pub Vec<Option<Value>>);

impl Storable<StoreLogp> for Expanded {
    fn names(parent: &StoreLogp) -> Vec<&str> {
        parent.vars.iter().map(|v| v.name.as_str()).collect()
    }
    fn item_type(parent: &StoreLogp, item: &str) -> ItemType {
        parent.vars.iter().find(|v| v.name == item).map(|v| v.ty).expect("unknown draw variable")
    }
    fn dims<'a>(parent: &'a StoreLogp, item: &str) -> Vec<&'a str> {
        parent
            .vars
            .iter()
            .find(|v| v.name == item)
            .map(|v| v.dims.iter().map(|d| d.0.as_str()).collect())
            .expect("unknown draw variable")
    }
    fn get_all<'a>(&'a mut self, parent: &'a StoreLogp) -> Vec<(&'a str, Option<Value>)> {
        parent.vars.iter().zip(self.0.drain(..)).map(|(v, x)| (v.name.as_str(), x)).collect()
    }
}

impl CpuLogpFunc for StoreLogp {
    type LogpError = Never;
    type FlowParameters = ();
    type ExpandedVector = Expanded;
    fn dim(&self) -> usize {
        self.dim
    }
    fn logp(&mut self, _p: &[f64], g: &mut [f64]) -> Result<f64, Never> {
        g.fill(0.0);
        Ok(0.0)
    }
    fn expand_vector<R: nuts_rs::rand::Rng + ?Sized>(
        &mut self,
        _rng: &mut R,
        _array: &[f64],
    ) -> Result<Expanded, CpuMathError> {
        Ok(Expanded(vec![]))
    }
}

fn parse_type(s: &str) -> ItemType {
    match s {
        "f64" => ItemType::F64,
        "f32" => ItemType::F32,
        "i64" => ItemType::I64,
        "u64" => ItemType::U64,
        "bool" => ItemType::Bool,
        _ => ItemType::String,
    }
}
fn type_name(t: ItemType) -> &'static str {
    match t {
        ItemType::F64 => "f64",
        ItemType::F32 => "f32",
        ItemType::I64 => "i64",
        ItemType::U64 => "u64",
        ItemType::Bool => "bool",
        ItemType::String => "string",
        _ => "other",
    }
}

// ----------------------------------------------------------------------------- values
pub fn name_hash(name: &str) -> u64 {
    name.bytes().map(|b| b as u64).sum::<u64>() % 5
}

/// The value of cell j of variable `name` in record r of chain c (mirrored in lib/project.py).
pub fn cell(name: &str, ty: ItemType, c: u64, r: u64, j: u64, specials: bool) -> J {
    let nh = name_hash(name);
    match ty {
        ItemType::F64 | ItemType::F32 => {
            if specials && j >= 1 {
                match (r + j + nh) % 7 {
                    3 => return json!("nan"),
                    5 => return json!("-inf"),
                    6 => return json!("inf"),
                    _ => {}
                }
            }
            json!((r * 64 + c * 8 + j) as f64 + nh as f64 * 0.125 + 0.125)
        }
        ItemType::I64 => json!(-((r * 1000 + c * 100 + j * 10 + nh) as i64) - 1),
        ItemType::U64 => json!(r * 1000 + c * 100 + j * 10 + nh + 1),
        ItemType::Bool => json!((r + c + j + nh) % 2 == 0),
        _ => {
            if specials && (r + nh) % 3 == 0 {
                json!("")
            } else {
                json!(format!("s{c}_{r}_{j}_{nh}"))
            }
        }
    }
}

fn f64_of(j: &J) -> f64 {
    match j.as_str() {
        Some("nan") => f64::NAN,
        Some("inf") => f64::INFINITY,
        Some("-inf") => f64::NEG_INFINITY,
        _ => j.as_f64().unwrap(),
    }
}

pub fn make_value(name: &str, ty: ItemType, n: usize, scalar: bool, c: u64, r: u64, specials: bool) -> Value {
    let cells: Vec<J> = (0..n as u64).map(|j| cell(name, ty, c, r, j, specials)).collect();
    match (ty, scalar) {
        (ItemType::F64, true) => Value::ScalarF64(f64_of(&cells[0])),
        (ItemType::F64, false) => Value::F64(cells.iter().map(f64_of).collect()),
        (ItemType::F32, true) => Value::ScalarF32(f64_of(&cells[0]) as f32),
        (ItemType::F32, false) => Value::F32(cells.iter().map(|x| f64_of(x) as f32).collect()),
        (ItemType::I64, true) => Value::ScalarI64(cells[0].as_i64().unwrap()),
        (ItemType::I64, false) => Value::I64(cells.iter().map(|x| x.as_i64().unwrap()).collect()),
        (ItemType::U64, true) => Value::ScalarU64(cells[0].as_u64().unwrap()),
        (ItemType::U64, false) => Value::U64(cells.iter().map(|x| x.as_u64().unwrap()).collect()),
        (ItemType::Bool, true) => Value::ScalarBool(cells[0].as_bool().unwrap()),
        (ItemType::Bool, false) => Value::Bool(cells.iter().map(|x| x.as_bool().unwrap()).collect()),
        (_, true) => Value::ScalarString(cells[0].as_str().unwrap().to_string()),
        (_, false) => Value::Strings(cells.iter().map(|x| x.as_str().unwrap().to_string()).collect()),
    }
}

// canonical cell strings of what a backend returned
fn c_f64(x: f64) -> String {
    if x.is_nan() { "nan".into() } else { bits(x) }
}
fn c_f32(x: f32) -> String {
    if x.is_nan() { "nan".into() } else { bits(x as f64) }
}

// ----------------------------------------------------------------------------- schema
#[derive(Clone)]
pub struct StatSpec {
    pub name: String,
    pub ty: ItemType,
    pub n: usize,
    pub scalar: bool,
    pub event: Option<String>,
}

fn stat_schema<S: Settings>(settings: &S, math: &CpuMath<StoreLogp>) -> Vec<StatSpec> {
    let sizes = settings.stat_dim_sizes(math);
    let types = settings.stat_types(math);
    let dims = settings.stat_dims_all(math);
    let evs = settings.stat_event_dims(math);
    types
        .into_iter()
        .zip(dims)
        .zip(evs)
        .map(|(((name, ty), (_, d)), (_, ev))| {
            let n: usize = d.iter().map(|x| *sizes.get(x).unwrap_or(&0) as usize).product();
            StatSpec { name, ty, n: if d.is_empty() { 1 } else { n }, scalar: d.is_empty(), event: ev }
        })
        .collect()
}

const IDENT: [&str; 3] = ["divergence_draw", "divergence_message", "transformation_update_id"];

fn build_stats<'a>(
    schema: &'a [StatSpec],
    c: u64,
    r: u64,
    op: &J,
    full_events: bool,
    optvecs: bool,
    specials: bool,
) -> Vec<(&'a str, Option<Value>)> {
    schema
        .iter()
        .map(|s| {
            let present = match s.event.as_deref() {
                Some("divergence") => {
                    op["div"] == true && (IDENT.contains(&s.name.as_str()) || full_events)
                }
                Some(_) => op["upd"] == true && (IDENT.contains(&s.name.as_str()) || full_events),
                None => s.scalar || optvecs,
            };
            let v = if !present {
                None
            } else if s.name == "diverging" {
                Some(Value::ScalarBool(op["div"] == true))
            } else if s.name == "tuning" {
                Some(Value::ScalarBool(op["tuning"] == true))
            } else {
                Some(make_value(&s.name, s.ty, s.n, s.scalar, c, r, specials))
            };
            (s.name.as_str(), v)
        })
        .collect()
}

// ----------------------------------------------------------------------------- views
/// A view entry: one variable of one chain in one group.
fn entry(group: &str, var: &str, chain: usize, rows: Vec<J>) -> J {
    json!({"group": group, "var": var, "chain": chain, "rows": rows})
}

fn rows_from_flat<T: Clone>(flat: &[T], n: usize, f: impl Fn(&T) -> String) -> Vec<J> {
    if n == 0 {
        return vec![];
    }
    flat.chunks(n).map(|ch| json!(ch.iter().map(&f).collect::<Vec<_>>())).collect()
}

fn hm_rows(v: &HashMapValue, n: usize) -> Vec<J> {
    match v {
        HashMapValue::F64(x) => rows_from_flat(x, n, |a| c_f64(*a)),
        HashMapValue::F32(x) => rows_from_flat(x, n, |a| c_f32(*a)),
        HashMapValue::Bool(x) => rows_from_flat(x, n, |a| a.to_string()),
        HashMapValue::I64(x) => rows_from_flat(x, n, |a| a.to_string()),
        HashMapValue::U64(x) => rows_from_flat(x, n, |a| a.to_string()),
        HashMapValue::String(x) => rows_from_flat(x, n, |a| a.clone()),
    }
}

fn arrow_rows(col: &arrow::array::ArrayRef) -> Vec<J> {
    use arrow::array::*;
    fn prim(a: &dyn Array, i: usize) -> String {
        if let Some(x) = a.as_any().downcast_ref::<Float64Array>() {
            c_f64(x.value(i))
        } else if let Some(x) = a.as_any().downcast_ref::<Float32Array>() {
            c_f32(x.value(i))
        } else if let Some(x) = a.as_any().downcast_ref::<Int64Array>() {
            x.value(i).to_string()
        } else if let Some(x) = a.as_any().downcast_ref::<UInt64Array>() {
            x.value(i).to_string()
        } else if let Some(x) = a.as_any().downcast_ref::<BooleanArray>() {
            x.value(i).to_string()
        } else if let Some(x) = a.as_any().downcast_ref::<StringArray>() {
            x.value(i).to_string()
        } else {
            "?".into()
        }
    }
    let mut rows = vec![];
    if let Some(list) = col.as_any().downcast_ref::<LargeListArray>() {
        for i in 0..list.len() {
            if list.is_null(i) {
                rows.push(J::Null);
            } else {
                let v = list.value(i);
                rows.push(json!((0..v.len()).map(|k| prim(v.as_ref(), k)).collect::<Vec<_>>()));
            }
        }
    } else {
        for i in 0..col.len() {
            if col.is_null(i) {
                rows.push(J::Null);
            } else {
                rows.push(json!([prim(col.as_ref(), i)]));
            }
        }
    }
    rows
}

fn nd_rows(v: &NdarrayValue, chain: usize) -> Vec<J> {
    macro_rules! go {
        ($a:expr, $f:expr) => {{
            let a = $a;
            let shape = a.shape().to_vec();
            let total = shape[1];
            let n: usize = shape[2..].iter().product();
            let sub = a.index_axis(ndarray::Axis(0), chain);
            let flat: Vec<_> = sub.iter().cloned().collect();
            let _ = total;
            if shape.len() == 2 {
                flat.iter().map(|x| json!([$f(x)])).collect()
            } else {
                rows_from_flat(&flat, n, $f)
            }
        }};
    }
    match v {
        NdarrayValue::F64(a) => go!(a, |x: &f64| c_f64(*x)),
        NdarrayValue::F32(a) => go!(a, |x: &f32| c_f32(*x)),
        NdarrayValue::Bool(a) => go!(a, |x: &bool| x.to_string()),
        NdarrayValue::I64(a) => go!(a, |x: &i64| x.to_string()),
        NdarrayValue::U64(a) => go!(a, |x: &u64| x.to_string()),
        NdarrayValue::String(a) => go!(a, |x: &String| x.clone()),
    }
}

/// Read every array of a zarr hierarchy (sync reader over the same key/value store).
fn zarr_view(store: Arc<dyn zarrs::storage::ReadableListableStorageTraits>, chains: usize, names: &[(String, String)]) -> Vec<J> {
    use zarrs::array::{Array, ArraySubset};
    let mut out = vec![];
    for (group, var) in names {
        let path = format!("/{group}/{var}");
        let Ok(arr) = Array::open(store.clone(), &path) else {
            out.push(json!({"group": group, "var": var, "missing": true}));
            continue;
        };
        let shape = arr.shape().to_vec();
        let n: usize = shape[2..].iter().product::<u64>() as usize;
        let dt = format!("{:?}", arr.data_type());
        for c in 0..chains {
            let mut sub_shape = shape.clone();
            sub_shape[0] = 1;
            let mut start = vec![0u64; shape.len()];
            start[0] = c as u64;
            let rows: Result<Vec<J>, String> = (|| {
                if sub_shape.iter().any(|x| *x == 0) {
                    return Ok(vec![]);
                }
                let subset = ArraySubset::new_with_start_shape(start.clone(), sub_shape.clone()).map_err(|e| e.to_string())?;
                let nn = if shape.len() == 2 { 1 } else { n };
                macro_rules! rd {
                    ($t:ty, $f:expr) => {{
                        let v: Vec<$t> = arr.retrieve_array_subset(&subset).map_err(|e| e.to_string())?;
                        Ok(rows_from_flat(&v, nn, $f))
                    }};
                }
                let d = dt.to_lowercase();
                if d.contains("float64") {
                    rd!(f64, |x: &f64| c_f64(*x))
                } else if d.contains("float32") {
                    rd!(f32, |x: &f32| c_f32(*x))
                } else if d.contains("uint64") {
                    rd!(u64, |x: &u64| x.to_string())
                } else if d.contains("int64") {
                    rd!(i64, |x: &i64| x.to_string())
                } else if d.contains("bool") {
                    rd!(bool, |x: &bool| x.to_string())
                } else {
                    rd!(String, |x: &String| x.clone())
                }
            })();
            match rows {
                Ok(r) => out.push(json!({"group": group, "var": var, "chain": c, "rows": r, "len": shape[1]})),
                Err(e) => out.push(json!({"group": group, "var": var, "chain": c, "error": e})),
            }
        }
    }
    out
}

fn csv_view(dir: &std::path::Path, chains: usize) -> Vec<J> {
    let mut out = vec![];
    for c in 0..chains {
        let p = dir.join(format!("chain_{c}.csv"));
        if std::fs::symlink_metadata(&p).map(|m| m.file_type().is_symlink()).unwrap_or(false) {
            // the failing sink of the C13 scenario (a link to /dev/full): nothing to read back
            out.push(json!({"group": "csv", "chain": c, "missing": true}));
            continue;
        }
        let Ok(text) = std::fs::read_to_string(&p) else {
            out.push(json!({"group": "csv", "chain": c, "missing": true}));
            continue;
        };
        let mut lines = text.lines();
        let header: Vec<String> = lines.next().unwrap_or("").split(',').map(|s| s.to_string()).collect();
        let rows: Vec<J> = lines.map(|l| json!(l.split(',').collect::<Vec<_>>())).collect();
        out.push(json!({"group": "csv", "chain": c, "header": header, "rows": rows}));
    }
    out
}

// ----------------------------------------------------------------------------- driver
struct Ctx<'a, S: Settings> {
    sc: &'a J,
    settings: S,
    math: CpuMath<StoreLogp>,
    schema: Vec<StatSpec>,
    chains: usize,
}

fn drive<S: Settings, C: StorageConfig>(
    ctx: &Ctx<S>,
    cfg: C,
    read_final: &dyn Fn(&<C::Storage as TraceStorage>::Finalized) -> Vec<J>,
    reader: &dyn Fn() -> Vec<J>,
    events: &mut Vec<J>,
) -> Result<(), String> {
    let sc = ctx.sc;
    let trace = cfg.new_trace(&ctx.settings, &ctx.math).map_err(|e| format!("new_trace: {e:#}"))?;
    let mut chains: Vec<Option<<C::Storage as TraceStorage>::ChainStorage>> = vec![];
    for c in 0..ctx.chains {
        chains.push(Some(trace.initialize_trace_for_chain(c as u64).map_err(|e| format!("init chain: {e:#}"))?));
    }
    let mut counts = vec![0u64; ctx.chains];
    let full_events = sc["full_events"].as_bool().unwrap_or(true);
    let optvecs = sc["optvecs"].as_bool().unwrap_or(true);
    let specials = sc["specials"].as_bool().unwrap_or(true);
    let observe_reader = sc["observe_reader"].as_bool().unwrap_or(false);
    let logp = StoreLogp { dim: ctx.math.dim(), vars: vars_of(sc) };
    for op in sc["ops"].as_array().cloned().unwrap_or_default() {
        match op["op"].as_str().unwrap_or("") {
            "record" => {
                let c = op["chain"].as_u64().unwrap() as usize;
                let r = counts[c];
                let stats = build_stats(&ctx.schema, c as u64, r, &op, full_events, optvecs, specials);
                let draws: Vec<(&str, Option<Value>)> = logp
                    .vars
                    .iter()
                    .map(|v| {
                        let n: usize = v.dims.iter().map(|d| d.1).product();
                        (v.name.as_str(), Some(make_value(&v.name, v.ty, if v.dims.is_empty() { 1 } else { n }, v.dims.is_empty(), c as u64, r, specials)))
                    })
                    .collect();
                let info = progress(r, c as u64, op["div"] == true, op["tuning"] == true);
                let res = chains[c].as_mut().unwrap().record_sample(&ctx.settings, stats, draws, &info);
                counts[c] += 1;
                events.push(json!({"e": "record", "chain": c, "tuning": op["tuning"], "div": op["div"], "upd": op["upd"],
                    "ok": res.is_ok(), "err": res.as_ref().err().map(|e| format!("{e:#}"))}));
                if res.is_err() {
                    return Ok(());
                }
                if observe_reader {
                    events.push(json!({"e": "observe", "kind": "reader", "view": reader()}));
                }
            }
            "flush" => {
                let mut ok = true;
                for ch in chains.iter() {
                    if let Some(ch) = ch {
                        ok &= ch.flush().is_ok();
                    }
                }
                events.push(json!({"e": "flush", "ok": ok}));
                events.push(json!({"e": "observe", "kind": "flushed", "view": reader()}));
            }
            "inspect" => {
                let parts: Vec<_> = chains.iter().map(|c| c.as_ref().unwrap().inspect()).collect();
                match trace.inspect(parts) {
                    Ok((err, fin)) => events.push(json!({"e": "observe", "kind": "inspect", "err": err.map(|e| format!("{e:#}")),
                        "view": read_final(&fin), "reader": reader()})),
                    Err(e) => events.push(json!({"e": "observe", "kind": "inspect", "fail": format!("{e:#}")})),
                }
            }
            _ => {}
        }
    }
    let parts: Vec<_> = chains.iter_mut().map(|c| c.take().unwrap().finalize()).collect();
    match trace.finalize(parts) {
        Ok((err, fin)) => events.push(json!({"e": "observe", "kind": "finalize", "err": err.map(|e| format!("{e:#}")),
            "view": read_final(&fin), "reader": reader()})),
        Err(e) => events.push(json!({"e": "observe", "kind": "finalize", "fail": format!("{e:#}")})),
    }
    Ok(())
}

fn progress(draw: u64, chain: u64, diverging: bool, tuning: bool) -> Progress {
    // Progress is #[non_exhaustive]: build it from JSON-free pieces via a real chain is overkill;
    // all its fields are public, so a struct update from a template obtained once is used.
    let mut p = template_progress();
    p.draw = draw;
    p.chain = chain;
    p.diverging = diverging;
    p.tuning = tuning;
    p.step_size = 0.5;
    p.num_steps = 3;
    p
}

pub fn template_progress() -> Progress {
    thread_local! {
        static T: std::cell::RefCell<Option<Progress>> = const { std::cell::RefCell::new(None) };
    }
    T.with(|t| {
        if t.borrow().is_none() {
            use nuts_rs::Chain;
            let mut rng = <nuts_rs::rand::rngs::ChaCha8Rng as nuts_rs::rand::SeedableRng>::seed_from_u64(1);
            let mut s = DiagNutsSettings::default();
            s.num_tune = 1;
            let logp = crate::density::TestLogp::new(crate::density::Kind::Normal { mu: vec![0.0], sd: vec![1.0] }, 1);
            let mut chain = s.new_chain(0, CpuMath::new(logp), &mut rng);
            chain.set_position(&[0.1]).unwrap();
            let (_, p) = chain.draw().unwrap();
            *t.borrow_mut() = Some(p);
        }
        t.borrow().clone().unwrap()
    })
}

fn vars_of(sc: &J) -> Vec<VarSpec> {
    sc["draw_vars"]
        .as_array()
        .cloned()
        .unwrap_or_default()
        .iter()
        .map(|v| VarSpec {
            name: v["name"].as_str().unwrap().to_string(),
            ty: parse_type(v["type"].as_str().unwrap()),
            dims: v["dims"].as_array().cloned().unwrap_or_default().iter().map(|d| (d[0].as_str().unwrap().to_string(), d[1].as_u64().unwrap() as usize)).collect(),
        })
        .collect()
}

fn run_scenario<S: Settings>(sc: &J, idx: usize) -> J {
    let mut st = sc["settings"].clone();
    if st.is_null() {
        st = json!({});
    }
    st["num_tune"] = sc["num_tune"].clone();
    st["num_draws"] = sc["num_draws"].clone();
    st["num_chains"] = sc["chains"].clone();
    let settings: S = match patched(&st) {
        Ok(s) => s,
        Err(e) => return json!({"error": e}),
    };
    let dim = sc["dim"].as_u64().unwrap_or(2) as usize;
    let vars = vars_of(sc);
    let math = CpuMath::new(StoreLogp { dim, vars: vars.clone() });
    let schema = stat_schema(&settings, &math);
    let chains = sc["chains"].as_u64().unwrap_or(1) as usize;
    let ctx = Ctx { sc, settings, math, schema: schema.clone(), chains };
    let backend = sc["backend"].as_str().unwrap_or("hashmap");
    let store_warmup = sc["store_warmup"].as_bool().unwrap_or(true);
    let chunk = sc["chunk"].as_u64().unwrap_or(2);
    let mut events: Vec<J> = vec![];
    let stat_names: Vec<String> = schema.iter().map(|s| s.name.clone()).collect();
    let draw_names: Vec<String> = vars.iter().map(|v| v.name.clone()).collect();
    let stat_n: HashMap<String, usize> = schema.iter().map(|s| (s.name.clone(), s.n)).collect();
    let draw_n: HashMap<String, usize> =
        vars.iter().map(|v| (v.name.clone(), if v.dims.is_empty() { 1 } else { v.dims.iter().map(|d| d.1).product() })).collect();
    let none_reader = || -> Vec<J> { vec![] };
    let res = std::panic::catch_unwind(std::panic::AssertUnwindSafe(|| -> Result<(), String> {
        match backend {
            "hashmap" => drive(&ctx, HashMapConfig::new(), &|fin| {
                let mut v = vec![];
                for (c, r) in fin.iter().enumerate() {
                    for n in &stat_names {
                        if let Some(x) = r.stats.get(n) {
                            v.push(entry("stats", n, c, hm_rows(x, stat_n[n])));
                        }
                    }
                    for n in &draw_names {
                        if let Some(x) = r.draws.get(n) {
                            v.push(entry("draws", n, c, hm_rows(x, draw_n[n])));
                        }
                    }
                }
                v
            }, &none_reader, &mut events),
            "arrow" => {
                let mut cfg = ArrowConfig::default();
                cfg.store_warmup = store_warmup;
                drive(&ctx, cfg, &|fin: &Vec<nuts_rs::ArrowTrace>| {
                    let mut v = vec![];
                    for (c, t) in fin.iter().enumerate() {
                        for (i, f) in t.sample_stats.schema().fields().iter().enumerate() {
                            v.push(entry("stats", f.name(), c, arrow_rows(t.sample_stats.column(i))));
                        }
                        for (i, f) in t.posterior.schema().fields().iter().enumerate() {
                            v.push(entry("draws", f.name(), c, arrow_rows(t.posterior.column(i))));
                        }
                    }
                    v
                }, &none_reader, &mut events)
            }
            "ndarray" => drive(&ctx, NdarrayConfig::new(), &|fin: &nuts_rs::NdarrayTrace| {
                let mut v = vec![];
                for c in 0..chains {
                    for n in &stat_names {
                        if let Some(x) = fin.stats.get(n) {
                            v.push(entry("stats", n, c, nd_rows(x, c)));
                        }
                    }
                    for n in &draw_names {
                        if let Some(x) = fin.draws.get(n) {
                            v.push(entry("draws", n, c, nd_rows(x, c)));
                        }
                    }
                }
                v
            }, &none_reader, &mut events),
            "csv" => {
                let dir = std::path::PathBuf::from(format!("{}/csv_{}_{}", sc["workdir"].as_str().unwrap_or("/verif/work/storage"), std::process::id(), idx));
                let _ = std::fs::remove_dir_all(&dir);
                // C13: a sink that rejects every write for one chain (its file is a link to /dev/full)
                if let Some(k) = sc["devfull"].as_u64() {
                    std::fs::create_dir_all(&dir).map_err(|e| e.to_string())?;
                    std::os::unix::fs::symlink("/dev/full", dir.join(format!("chain_{k}.csv"))).map_err(|e| e.to_string())?;
                }
                let cfg = CsvConfig::new(&dir).store_warmup(store_warmup).with_precision(sc["precision"].as_u64().unwrap_or(6) as usize);
                let d2 = dir.clone();
                let r = drive(&ctx, cfg, &move |_fin: &()| csv_view(&d2, chains), &none_reader, &mut events);
                let _ = std::fs::remove_dir_all(&dir);
                r
            }
            "zarr" | "zarr_fs" => {
                let mut names = vec![];
                for g in ["warmup_sample_stats", "sample_stats"] {
                    for n in &stat_names {
                        if n != "draw" && n != "chain" {
                            names.push((g.to_string(), n.clone()));
                        }
                    }
                }
                for g in ["warmup_posterior", "posterior"] {
                    for n in &draw_names {
                        names.push((g.to_string(), n.clone()));
                    }
                }
                if backend == "zarr" {
                    let store = Arc::new(zarrs::storage::store::MemoryStore::new());
                    let cfg = ZarrConfig::new(store.clone()).with_chunk_size(chunk).store_warmup(store_warmup);
                    let s2 = store.clone();
                    let n2 = names.clone();
                    let reader = move || zarr_view(s2.clone(), chains, &n2);
                    let s3 = store.clone();
                    let n3 = names.clone();
                    drive(&ctx, cfg, &move |_f: &()| zarr_view(s3.clone(), chains, &n3), &reader, &mut events)
                } else {
                    let dir = std::path::PathBuf::from(format!("{}/zarr_{}_{}", sc["workdir"].as_str().unwrap_or("/verif/work/storage"), std::process::id(), idx));
                    let _ = std::fs::remove_dir_all(&dir);
                    std::fs::create_dir_all(&dir).map_err(|e| e.to_string())?;
                    let store = Arc::new(zarrs::filesystem::FilesystemStore::new(&dir).map_err(|e| e.to_string())?);
                    let cfg = ZarrConfig::new(store.clone()).with_chunk_size(chunk).store_warmup(store_warmup);
                    let (d2, n2) = (dir.clone(), names.clone());
                    // a FRESH reader: a new store object over the directory
                    let reader = move || {
                        let s = Arc::new(zarrs::filesystem::FilesystemStore::new(&d2).unwrap());
                        zarr_view(s, chains, &n2)
                    };
                    let (d3, n3) = (dir.clone(), names.clone());
                    let r = drive(&ctx, cfg, &move |_f: &()| {
                        let s = Arc::new(zarrs::filesystem::FilesystemStore::new(&d3).unwrap());
                        zarr_view(s, chains, &n3)
                    }, &reader, &mut events);
                    let _ = std::fs::remove_dir_all(&dir);
                    r
                }
            }
            "zarr_async" | "zarr_async_slow" => {
                let mut names = vec![];
                for g in ["warmup_sample_stats", "sample_stats"] {
                    for n in &stat_names {
                        if n != "draw" && n != "chain" {
                            names.push((g.to_string(), n.clone()));
                        }
                    }
                }
                for g in ["warmup_posterior", "posterior"] {
                    for n in &draw_names {
                        names.push((g.to_string(), n.clone()));
                    }
                }
                let dir = std::path::PathBuf::from(format!("{}/zarra_{}_{}", sc["workdir"].as_str().unwrap_or("/verif/work/storage"), std::process::id(), idx));
                let _ = std::fs::remove_dir_all(&dir);
                std::fs::create_dir_all(&dir).map_err(|e| e.to_string())?;
                let workers = if backend == "zarr_async_slow" { 1 } else { 2 };
                let rt = tokio::runtime::Builder::new_multi_thread().worker_threads(workers).enable_all().build().map_err(|e| e.to_string())?;
                let os = object_store::local::LocalFileSystem::new_with_prefix(&dir).map_err(|e| e.to_string())?;
                let store = Arc::new(zarrs_object_store::AsyncObjectStore::new(os));
                let cfg = ZarrAsyncConfig::new(rt.handle().clone(), store).with_chunk_size(chunk).store_warmup(store_warmup);
                // slow write queue: a task that keeps blocking the runtime's only worker for a few milliseconds
                // between yields, so queued chunk writes are still pending when flush() is entered
                let stop = Arc::new(std::sync::atomic::AtomicBool::new(false));
                if backend == "zarr_async_slow" {
                    let stop2 = stop.clone();
                    let delay = sc["put_delay_ms"].as_u64().unwrap_or(8);
                    rt.spawn(async move {
                        while !stop2.load(std::sync::atomic::Ordering::Relaxed) {
                            std::thread::sleep(std::time::Duration::from_millis(delay));
                            tokio::task::yield_now().await;
                        }
                    });
                }
                let (d2, n2) = (dir.clone(), names.clone());
                let reader = move || {
                    let s = Arc::new(zarrs::filesystem::FilesystemStore::new(&d2).unwrap());
                    zarr_view(s, chains, &n2)
                };
                let (d3, n3) = (dir.clone(), names.clone());
                let r = drive(&ctx, cfg, &move |_f: &()| {
                    let s = Arc::new(zarrs::filesystem::FilesystemStore::new(&d3).unwrap());
                    zarr_view(s, chains, &n3)
                }, &reader, &mut events);
                stop.store(true, std::sync::atomic::Ordering::Relaxed);
                drop(rt);
                let _ = std::fs::remove_dir_all(&dir);
                r
            }
            other => Err(format!("unknown backend {other}")),
        }
    }));
    let schema_j: Vec<J> = schema
        .iter()
        .map(|s| json!({"name": s.name, "t": type_name(s.ty), "n": s.n, "scalar": s.scalar, "event": s.event}))
        .collect();
    let vars_j: Vec<J> = vars
        .iter()
        .map(|v| json!({"name": v.name, "t": type_name(v.ty), "n": draw_n[&v.name], "scalar": v.dims.is_empty(),
            "shape": v.dims.iter().map(|d| d.1).collect::<Vec<_>>()}))
        .collect();
    let status = match res {
        Ok(Ok(())) => json!("ok"),
        Ok(Err(e)) => json!({"error": e}),
        Err(p) => json!({"panic": panic_msg(&p)}),
    };
    json!({"status": status, "stat_schema": schema_j, "draw_schema": vars_j, "events": events})
}

pub fn main(args: &[String]) -> i32 {
    let inp = std::fs::File::open(&args[0]).expect("open scenarios");
    let scenarios: Vec<J> = std::io::BufReader::new(inp)
        .lines()
        .map(|l| l.unwrap())
        .filter(|l| !l.trim().is_empty())
        .map(|l| serde_json::from_str(&l).expect("scenario json"))
        .collect();
    std::panic::set_hook(Box::new(|_| {}));
    let threads = std::env::var("VH_THREADS").ok().and_then(|s| s.parse().ok()).unwrap_or(8usize);
    let n = scenarios.len();
    let next = std::sync::atomic::AtomicUsize::new(0);
    let results: Vec<std::sync::Mutex<Option<J>>> = (0..n).map(|_| std::sync::Mutex::new(None)).collect();
    std::thread::scope(|s| {
        for _ in 0..threads.min(n.max(1)) {
            s.spawn(|| {
                loop {
                    let i = next.fetch_add(1, std::sync::atomic::Ordering::SeqCst);
                    if i >= n {
                        break;
                    }
                    let sc = &scenarios[i];
                    let r = match sc["preset"].as_str().unwrap_or("diag_nuts") {
                        "diag_mclmc" => run_scenario::<DiagMclmcSettings>(sc, i),
                        _ => run_scenario::<DiagNutsSettings>(sc, i),
                    };
                    *results[i].lock().unwrap() = Some(r);
                }
            });
        }
    });
    let mut out = std::io::BufWriter::new(std::fs::File::create(&args[1]).expect("create out"));
    for (i, sc) in scenarios.iter().enumerate() {
        let r = results[i].lock().unwrap().take().unwrap_or(J::Null);
        writeln!(out, "{}", json!({"scenario": sc, "result": r})).unwrap();
    }
    0
}
