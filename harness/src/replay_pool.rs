//! C03 binding (state identity): call sequences of StatePool.tla replayed into the real
//! `StatePool` / `State` (new_state, copy_state, clone, drop, try_point_mut, dropping the pool)
//! with a point type that carries an allocation serial number and a value.  After every call the
//! aliasing structure of the live handles (which handles share a buffer), the value every live
//! handle observes and the result of `try_point_mut` must be those of the model.  Allocation and
//! deallocation counts are compared too, but reported separately (recycling policy, not state
//! identity).

use std::cell::Cell;
use std::io::{BufRead, Write};

use nuts_rs::verif::{Point, State, StatePool};
use nuts_rs::{CpuMath, Math, SamplerStats};
use serde_json::{Value as J, json};

use crate::replay_nuts::DummyLogp;

type M = CpuMath<DummyLogp>;

thread_local! {
    static NEWS: Cell<u64> = const { Cell::new(0) };
    static DROPS: Cell<u64> = const { Cell::new(0) };
}

#[derive(Debug)]
pub struct PoolPoint {
    serial: u64,
    value: i64,
    pos: <M as Math>::Vector,
    grad: <M as Math>::Vector,
}

impl Drop for PoolPoint {
    fn drop(&mut self) {
        DROPS.with(|d| d.set(d.get() + 1));
    }
}

impl SamplerStats<M> for PoolPoint {
    type Stats = ();
    type StatsOptions = ();
    fn extract_stats(&self, _math: &mut M, _opt: ()) {}
}

impl Point<M> for PoolPoint {
    fn position(&self) -> &<M as Math>::Vector {
        &self.pos
    }
    fn gradient(&self) -> &<M as Math>::Vector {
        &self.grad
    }
    fn index_in_trajectory(&self) -> i64 {
        self.value
    }
    fn energy(&self) -> f64 {
        self.value as f64
    }
    fn logp(&self) -> f64 {
        0.0
    }
    fn initial_energy(&self) -> f64 {
        0.0
    }
    fn new(math: &mut M) -> Self {
        let serial = NEWS.with(|n| {
            n.set(n.get() + 1);
            n.get()
        });
        PoolPoint { serial, value: 0, pos: math.new_array(), grad: math.new_array() }
    }
    fn copy_into(&self, math: &mut M, other: &mut Self) {
        other.value = self.value;
        math.copy_into(&self.pos, &mut other.pos);
        math.copy_into(&self.grad, &mut other.grad);
    }
}

type St = State<M, PoolPoint>;

/// canonical form of "which handles share a cell": for each handle the smallest handle sharing with it (0 = dead)
fn canon<T: PartialEq + Copy>(ids: &[Option<T>]) -> Vec<usize> {
    ids.iter()
        .map(|x| match x {
            None => 0,
            Some(v) => ids.iter().position(|y| *y == Some(*v)).unwrap() + 1,
        })
        .collect()
}

struct Outcome {
    calls: usize,
    policy_notes: Vec<String>,
}

fn run_case(c: &J) -> Result<Outcome, String> {
    let ops = c["ops"].as_array().ok_or("no ops")?;
    let nh = ops.first().map(|o| o["cells"].as_array().map(|a| a.len()).unwrap_or(0)).unwrap_or(0);
    let mut math = CpuMath::new(DummyLogp { dim: 2 });
    NEWS.with(|n| n.set(0));
    DROPS.with(|d| d.set(0));
    let mut pool: Option<StatePool<M, PoolPoint>> = Some(StatePool::new(&mut math, 4));
    let mut hs: Vec<Option<St>> = (0..nh).map(|_| None).collect();
    let mut notes = vec![];
    for (i, o) in ops.iter().enumerate() {
        let op = o["op"].as_str().unwrap_or("");
        let a = o["a"].as_u64().unwrap_or(0) as usize;
        let b = o["b"].as_u64().unwrap_or(0) as usize;
        let v = o["v"].as_i64().unwrap_or(0);
        let mut ok = true;
        match op {
            "new" => {
                let s = pool.as_ref().ok_or("new on dropped pool")?.new_state(&mut math);
                hs[a - 1] = Some(s);
            }
            "copy" => {
                let s = {
                    let src = hs[a - 1].as_ref().ok_or("copy of dead handle")?;
                    pool.as_ref().ok_or("copy on dropped pool")?.copy_state(&mut math, src)
                };
                hs[b - 1] = Some(s);
            }
            "clone" => {
                let s = hs[a - 1].as_ref().ok_or("clone of dead handle")?.clone();
                hs[b - 1] = Some(s);
            }
            "drop" => {
                hs[a - 1] = None;
            }
            "mut" => {
                let s = hs[a - 1].as_mut().ok_or("mut of dead handle")?;
                match s.try_point_mut() {
                    Ok(p) => p.value = v,
                    Err(_) => ok = false,
                }
            }
            "droppool" => {
                pool = None;
            }
            other => return Err(format!("unknown op {other}")),
        }
        let at = |what: &str, got: String, want: String| {
            format!("call {} ({} a={} b={} v={}): {} is {} but the model has {}", i + 1, op, a, b, v, what, got, want)
        };
        let want_ok = o["ok"].as_bool().unwrap_or(true);
        if ok != want_ok {
            return Err(at("try_point_mut success", ok.to_string(), want_ok.to_string()));
        }
        // aliasing structure: by allocation serial and, independently, by buffer address
        let serials: Vec<Option<u64>> = hs.iter().map(|h| h.as_ref().map(|s| s.point().serial)).collect();
        let addrs: Vec<Option<usize>> = hs.iter().map(|h| h.as_ref().map(|s| s.point() as *const PoolPoint as usize)).collect();
        let want_cells: Vec<Option<u64>> = o["cells"].as_array().unwrap().iter()
            .map(|x| x.as_u64().filter(|c| *c != 0)).collect();
        let (cs, ca, cw) = (canon(&serials), canon(&addrs), canon(&want_cells));
        if cs != cw || ca != cw {
            return Err(at("sharing of buffers between live handles", format!("{cs:?} (by address {ca:?})"), format!("{cw:?}")));
        }
        let vals: Vec<i64> = hs.iter().map(|h| h.as_ref().map(|s| s.index_in_trajectory()).unwrap_or(0)).collect();
        let want_vals: Vec<i64> = o["vals"].as_array().unwrap().iter().map(|x| x.as_i64().unwrap_or(0)).collect();
        if vals != want_vals {
            return Err(at("content seen through the handles", format!("{vals:?}"), format!("{want_vals:?}")));
        }
        let (news, drops) = (NEWS.with(|n| n.get()), DROPS.with(|d| d.get()));
        if news != o["alloc"].as_u64().unwrap_or(0) && notes.is_empty() {
            notes.push(at("allocations", news.to_string(), o["alloc"].to_string()));
        }
        if drops != o["gone"].as_u64().unwrap_or(0) && notes.is_empty() {
            notes.push(at("deallocations", drops.to_string(), o["gone"].to_string()));
        }
    }
    // tear down: everything allocated must be released exactly once
    hs.clear();
    drop(pool);
    let (news, drops) = (NEWS.with(|n| n.get()), DROPS.with(|d| d.get()));
    if news != drops && notes.is_empty() {
        notes.push(format!("after dropping every handle and the pool {news} points were allocated and {drops} released"));
    }
    Ok(Outcome { calls: ops.len(), policy_notes: notes })
}

pub fn main(args: &[String]) -> i32 {
    let path = args.first().cloned().unwrap_or("-".into());
    let reader: Box<dyn BufRead> = if path == "-" {
        Box::new(std::io::BufReader::new(std::io::stdin()))
    } else {
        Box::new(std::io::BufReader::new(std::fs::File::open(&path).expect("open")))
    };
    std::panic::set_hook(Box::new(|_| {}));
    let (mut cases, mut calls) = (0usize, 0usize);
    let (mut shared, mut refused, mut orphan) = (0usize, 0usize, 0usize);
    let mut failures: Vec<J> = vec![];
    let mut policy: Vec<J> = vec![];
    let mut npolicy = 0usize;
    let mut samples = vec![];
    for line in reader.lines() {
        let line = line.expect("read");
        let Some(pos) = line.find("<<\"REPLAY\", ") else { continue };
        let inner = line[pos + 12..].trim_end().trim_end_matches(">>");
        let Ok(s) = serde_json::from_str::<String>(inner) else { continue };
        let Ok(c) = serde_json::from_str::<J>(&s) else { continue };
        cases += 1;
        let ops = c["ops"].as_array().cloned().unwrap_or_default();
        if ops.iter().any(|o| o["op"] == "mut" && o["ok"] == false) {
            refused += 1;
        }
        if ops.iter().any(|o| o["op"] == "clone") {
            shared += 1;
        }
        if ops.iter().any(|o| o["op"] == "droppool") {
            orphan += 1;
        }
        let r = std::panic::catch_unwind(std::panic::AssertUnwindSafe(|| run_case(&c)));
        match r {
            Ok(Ok(o)) => {
                calls += o.calls;
                if !o.policy_notes.is_empty() {
                    npolicy += 1;
                    if policy.len() < 5 {
                        policy.push(json!({"note": o.policy_notes[0], "case": c}));
                    }
                } else if samples.len() < 2 && ops.iter().any(|o| o["op"] == "mut" && o["ok"] == false) {
                    samples.push(c.clone());
                }
            }
            Ok(Err(e)) => {
                if failures.len() < 50 {
                    failures.push(json!({"mismatch": e, "case": c}));
                } else {
                    failures.push(J::Null);
                }
            }
            Err(p) => failures.push(json!({"mismatch": format!("panic: {}", crate::record::panic_msg(&p)), "case": c})),
        }
    }
    let summary = json!({"cases": cases, "calls": calls, "with_shared": shared, "with_refused_write": refused,
        "with_dropped_pool": orphan, "failures": failures.len(),
        "first_failures": failures.iter().filter(|f| !f.is_null()).take(5).collect::<Vec<_>>(),
        "policy_differences": npolicy, "first_policy_differences": policy, "samples": samples});
    if let Some(p) = args.get(1) {
        std::fs::File::create(p).unwrap().write_all(summary.to_string().as_bytes()).unwrap();
    }
    println!("{}", json!({"cases": cases, "calls": calls, "failures": failures.len(), "policy_differences": npolicy}));
    0
}
