//! C04 (momentum clause): where in the chain's random stream does each trajectory's momentum come from?
//!
//! The outer RNG handed to `Settings::new_chain` is wrapped so that every 32-byte seed it gives out is
//! recorded; the chain's own RNG is then one of `ChaCha8Rng::from_seed(seed)`. After the run every
//! `momentum` hook event (velocity bit patterns) is located in that stream: the word interval [from, to)
//! whose standard-normal samples are, bit for bit, the velocity.

use std::convert::Infallible;

use nuts_rs::rand::rngs::ChaCha8Rng;
use nuts_rs::rand::{Rng, SeedableRng, TryRng};
use rand_distr::{Distribution, StandardNormal};
use serde_json::{Value as J, json};

pub struct SeedTap {
    pub inner: ChaCha8Rng,
    pub seeds: Vec<[u8; 32]>,
}

impl TryRng for SeedTap {
    type Error = Infallible;
    fn try_next_u32(&mut self) -> Result<u32, Infallible> {
        Ok(self.inner.next_u32())
    }
    fn try_next_u64(&mut self) -> Result<u64, Infallible> {
        Ok(self.inner.next_u64())
    }
    fn try_fill_bytes(&mut self, dst: &mut [u8]) -> Result<(), Infallible> {
        self.inner.fill_bytes(dst);
        if dst.len() == 32 {
            let mut s = [0u8; 32];
            s.copy_from_slice(dst);
            self.seeds.push(s);
        }
        Ok(())
    }
}

fn fb(j: &J) -> f64 {
    f64::from_bits(u64::from_str_radix(j.as_str().unwrap(), 16).unwrap())
}

/// Try to read `v` as consecutive standard-normal samples starting at word `s`; returns the end word.
fn matches_at(rng: &mut ChaCha8Rng, s: u128, v: &[f64]) -> Option<u128> {
    rng.set_word_pos(s);
    for x in v {
        let z: f64 = StandardNormal.sample(rng);
        if z.to_bits() != x.to_bits() {
            return None;
        }
    }
    Some(rng.get_word_pos())
}

/// Weaker readings of `v` at word `s`, used only to tell a wrong scale from a lost synchronisation:
/// "scaled" = v is one common multiple of the samples, "rescaled" = v_i / z_i > 0 for all of >= 24 coordinates.
fn loosely_matches_at(rng: &mut ChaCha8Rng, s: u128, v: &[f64]) -> Option<&'static str> {
    if v.len() < 2 {
        return None;
    }
    rng.set_word_pos(s);
    let z: Vec<f64> = v.iter().map(|_| StandardNormal.sample(rng)).collect();
    // the leading coordinates are the samples, bit for bit, but not all of them: only part of the momentum was redrawn
    let lead = v.iter().zip(&z).take_while(|(a, b)| a.to_bits() == b.to_bits()).count();
    if lead >= 1 && lead < v.len() {
        return Some("partial");
    }
    let r0 = v[0] / z[0];
    if r0.is_finite() && r0 != 0.0 && v.iter().zip(&z).all(|(a, b)| ((a / b) - r0).abs() <= 1e-9 * r0.abs()) {
        return Some("scaled");
    }
    // one affine map of the samples (e.g. a shifted mean): fitted on two coordinates, confirmed on all others
    if v.len() >= 3 && z[0] != z[1] {
        let a = (v[0] - v[1]) / (z[0] - z[1]);
        let b = v[0] - a * z[0];
        if a.is_finite() && b.is_finite() && a != 0.0
            && v.iter().zip(&z).all(|(x, y)| (x - (a * y + b)).abs() <= 1e-9 * (1.0 + x.abs()))
        {
            return Some("affine");
        }
    }
    if v.len() >= 24 && v.iter().zip(&z).all(|(a, b)| a / b > 0.0) {
        return Some("rescaled");
    }
    // the stream's words through another standard distribution (uniform, exponential): bit for bit
    rng.set_word_pos(s);
    if v.iter().all(|x| nuts_rs::rand::RngExt::random::<f64>(rng).to_bits() == x.to_bits()) {
        return Some("otherdist");
    }
    rng.set_word_pos(s);
    if v.iter().all(|x| { let u: f64 = rand_distr::Open01.sample(rng); u.to_bits() == x.to_bits() }) {
        return Some("otherdist");
    }
    rng.set_word_pos(s);
    if v.iter().all(|x| { let u: f64 = rand_distr::OpenClosed01.sample(rng); u.to_bits() == x.to_bits() }) {
        return Some("otherdist");
    }
    rng.set_word_pos(s);
    if v.iter().all(|x| { let u: f64 = rand_distr::Exp1.sample(rng); u.to_bits() == x.to_bits() }) {
        return Some("otherdist");
    }
    None
}

/// Adds `from`, `to`, `found`, `ke_ok`, `unit` to every momentum event of a finished run.
pub fn annotate(evs: &mut [J], seeds: &[[u8; 32]]) {
    let idx: Vec<usize> = evs.iter().enumerate().filter(|(_, e)| e["ev"] == "momentum").map(|(i, _)| i).collect();
    if idx.is_empty() {
        return;
    }
    let vel = |e: &J| -> Vec<f64> { e["v"].as_array().unwrap().iter().map(fb).collect() };
    // which seed is the chain's? the one under which the first resampled momentum is found early in the stream
    let first = idx.iter().copied().find(|i| evs[*i]["resample"] == true && evs[*i]["micro"] == false);
    let mut chosen: Option<ChaCha8Rng> = None;
    let mut loose_first: Option<&'static str> = None;
    // The stream is identified by the first momentum that can be found in it exactly. Usually that is the very
    // first one; if the first few are not samples of the stream at all (which is what the check is there to
    // find), a later one still identifies the stream, and the earlier ones are then reported as not found.
    let candidates: Vec<usize> = idx.iter().copied()
        .filter(|i| evs[*i]["resample"] == true && evs[*i]["micro"] == false).take(12).collect();
    'cand: for (ci, fi) in candidates.iter().enumerate() {
        let v0 = vel(&evs[*fi]);
        if v0.is_empty() {
            continue;
        }
        let range: u128 = if ci == 0 { 4096 } else { 60_000 };
        for s in seeds {
            let mut rng = ChaCha8Rng::from_seed(*s);
            for w in 0..range {
                if matches_at(&mut rng, w, &v0).is_some() {
                    chosen = Some(ChaCha8Rng::from_seed(*s));
                    break 'cand;
                }
            }
        }
    }
    if let Some(fi) = first {
        let v0 = vel(&evs[fi]);
        if chosen.is_none() {
            // not found exactly under any seed: is it the right words with a wrong scale?
            'outer2: for s in seeds {
                let mut rng = ChaCha8Rng::from_seed(*s);
                for w in 0..4096u128 {
                    if let Some(kind) = loosely_matches_at(&mut rng, w, &v0) {
                        loose_first = Some(kind);
                        chosen = Some(ChaCha8Rng::from_seed(*s));
                        break 'outer2;
                    }
                }
            }
        }
    }
    let synced = chosen.is_some();
    let _ = loose_first;
    let mut prev_end: u128 = 0;
    for i in idx {
        let v = vel(&evs[i]);
        let resample = evs[i]["resample"] == true;
        let micro = evs[i]["micro"] == true;
        let ke = fb(&evs[i]["ke"]);
        let half: f64 = 0.5 * v.iter().map(|x| x * x).sum::<f64>();
        let ke_ok = micro || (ke - half).abs() <= 1e-12 * half.max(1.0);
        let o = evs[i].as_object_mut().unwrap();
        o.insert("ke_ok".into(), json!(ke_ok));
        o.insert("dim".into(), json!(v.len()));
        o.remove("v");
        if !resample || micro || v.is_empty() {
            o.insert("found".into(), json!("na"));
            continue;
        }
        let mut found = None;
        if let Some(rng) = chosen.as_mut() {
            // fresh: search forward from the end of the previous momentum interval
            for w in prev_end..prev_end + 400_000 {
                if let Some(end) = matches_at(rng, w, &v) {
                    found = Some((w, end));
                    break;
                }
            }
            if found.is_none() {
                // re-used? search the part of the stream that was already consumed
                for w in 0..prev_end {
                    if let Some(end) = matches_at(rng, w, &v) {
                        found = Some((w, end));
                        break;
                    }
                }
            }
        }
        match found {
            Some((a, b)) => {
                o.insert("found".into(), json!("yes"));
                o.insert("from".into(), json!(a as u64));
                o.insert("to".into(), json!(b as u64));
                o.insert("prev_end".into(), json!(prev_end as u64));
                prev_end = prev_end.max(b);
            }
            None => {
                // wrong scale, or not from the stream at all, or (no seed fits) synchronisation lost
                let mut kind = if synced { "no" } else { "nosync" };
                if let Some(rng) = chosen.as_mut() {
                    for w in prev_end..prev_end + 100_000 {
                        if let Some(k) = loosely_matches_at(rng, w, &v) {
                            kind = k;
                            rng.set_word_pos(w);
                            for _ in 0..v.len() {
                                let _: f64 = StandardNormal.sample(rng);
                            }
                            prev_end = rng.get_word_pos();
                            break;
                        }
                    }
                }
                o.insert("found".into(), json!(kind));
            }
        }
    }
}
