-------------------------- MODULE StatsSchemaTrace --------------------------
EXTENDS StatsSchema, TLC, Json, IOUtils
Rec == ndJsonDeserialize(IOEnv.TRACE)
VARIABLE l
tvars == <<qvars, l>>
R == Rec[l]
IsEvent(e) == l <= Len(Rec) /\ Rec[l].e = e /\ l' = l + 1
TInit == QInit /\ l = 1
TrReset == IsEvent("reset") /\ Start([names |-> R.names, types |-> R.types, lens |-> R.lens, ev |-> R.ev])
\* (flagok: every option-controlled statistic - unconstrained_draw, gradient, transformed_position, transformed_gradient -
\* is present exactly when its own store_* option is set, and the `diverging` statistic equals the divergence flag of
\* the draw's Progress, which is also what decides whether the divergence event fields must be there;
\* computed harness-side)
TrDraw == IsEvent("draw") /\ R.flagok /\ Draw(R.st, R.diverging, R.changed, R.counter, R.chain)
TNext == TrReset \/ TrDraw
TSpec == TInit /\ [][TNext]_tvars
Accepted ==
    LET d == TLCGet("stats").diameter
    IN IF d - 1 = Len(Rec) THEN TRUE
       ELSE Print(<<"TRACE-REJECTED at line", d, Rec[d]>>, FALSE)
=============================================================================
