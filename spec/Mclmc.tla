-------------------------------- MODULE Mclmc --------------------------------
(***************************************************************************)
(* The step loop of MclmcChain::mclmc_kernel (src/mclmc.rs) and the        *)
(* draw-level rules of the microcanonical sampler (C18).                   *)
(*                                                                         *)
(* Kernel: `remaining` full-size steps are to be taken; a divergent step   *)
(* (dynamic step size only, at most MaxH nested times) is replaced by two  *)
(* steps of half the size: push `remaining`, set it to 2, halve `factor`;  *)
(* when a level is used up pop and double.  Time is counted in units of    *)
(* base_step / 2^MaxH so that it stays an integer.                         *)
(***************************************************************************)
EXTENDS Integers, Sequences

VARIABLES
    phase,      \* "idle" / "loop" / "done"
    numBase, maxH,
    remaining, stack, fexp,     \* factor = 2^-fexp
    steps, time, retried, diverged

kvars == <<phase, numBase, maxH, remaining, stack, fexp, steps, time, retried, diverged>>

Pow2(n) == 2 ^ n

KInit == /\ phase = "idle" /\ numBase = 1 /\ maxH = 0 /\ remaining = 0 /\ stack = <<>> /\ fexp = 0
         /\ steps = 0 /\ time = 0 /\ retried = FALSE /\ diverged = FALSE

Start(nb, mh) ==
    /\ phase \in {"idle", "done"}
    /\ nb >= 1
    /\ phase' = "loop" /\ numBase' = nb /\ maxH' = mh
    /\ remaining' = nb /\ stack' = <<>> /\ fexp' = 0
    /\ steps' = 0 /\ time' = 0 /\ retried' = FALSE /\ diverged' = FALSE

\* `while remaining == 0 { if let Some(prev) = stack.pop() { remaining = prev - 1; factor *= 2 } else break }`
RECURSIVE Unwind(_, _, _)
Unwind(r, s, f) == IF r = 0 /\ s # <<>>
                   THEN Unwind(s[Len(s)] - 1, SubSeq(s, 1, Len(s) - 1), f - 1)
                   ELSE <<r, s, f>>

StepOk ==
    /\ phase = "loop" /\ remaining > 0
    /\ steps' = steps + 1
    /\ time' = time + Pow2(maxH - fexp)
    /\ LET u == Unwind(remaining - 1, stack, fexp)
       IN /\ remaining' = u[1] /\ stack' = u[2] /\ fexp' = u[3]
          /\ phase' = IF u[1] = 0 THEN "done" ELSE "loop"
    /\ UNCHANGED <<numBase, maxH, retried, diverged>>

StepDiv ==
    /\ phase = "loop" /\ remaining > 0
    /\ IF Len(stack) >= maxH
       THEN \* genuinely diverged - give up
            /\ diverged' = TRUE /\ phase' = "done"
            /\ UNCHANGED <<remaining, stack, fexp, retried>>
       ELSE /\ fexp' = fexp + 1
            /\ stack' = Append(stack, remaining)
            /\ remaining' = 2
            /\ retried' = TRUE
            /\ UNCHANGED <<phase, diverged>>
    /\ UNCHANGED <<numBase, maxH, steps, time>>

\* ------------------------------ properties ------------------------------
FactorIsDepth == fexp = Len(stack) /\ fexp <= maxH
\* a draw without divergence advances by exactly numBase full-size steps of time
TimeExact == (phase = "done" /\ ~diverged) => time = numBase * Pow2(maxH)
\* ... in exactly numBase steps unless a retry happened (then more, smaller ones)
StepCount == (phase = "done" /\ ~diverged) =>
                 /\ steps >= numBase
                 /\ (steps = numBase) <=> ~retried
NoRetryWithoutDynamic == maxH = 0 => ~retried
\* never more time than asked for
TimeBounded == time <= numBase * Pow2(maxH)
KernelInv == FactorIsDepth /\ TimeExact /\ StepCount /\ NoRetryWithoutDynamic /\ TimeBounded
==============================================================================
