------------------------ MODULE MC_MassMatrixUpdate ------------------------
EXTENDS MassMatrixUpdate
AllCls == VarCls
AllInit == GradInitCls
OkOnly == {"ok"}
OkNan == {"ok", "nan"}
Rest3 == {<<"ok", "ok">>, <<"const", "ok">>, <<"ok", "nan">>}
AllRules == {"draw_grad", "draw", "lowrank"}
=============================================================================
