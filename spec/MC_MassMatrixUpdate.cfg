CONSTANTS
  Dim = 2
  Rounds = 2
  Counts = {2, 4}
  Cls0 <- AllCls
  RestPairs <- Rest3
  InitCls0 <- OkOnly
  InitClsRest <- OkOnly
  Rules <- AllRules
SPECIFICATION MMSpec
INVARIANTS MMInv Emit
CHECK_DEADLOCK FALSE
