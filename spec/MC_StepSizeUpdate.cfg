CONSTANTS
  Grid <- GridQuick
  Targets <- TargetsQuick
  T0s = {10, 3}
  Steps = 4
SPECIFICATION SUSpec
INVARIANTS UpdateInv Emit
CHECK_DEADLOCK FALSE
