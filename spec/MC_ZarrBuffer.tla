---------------------------- MODULE MC_ZarrBuffer ----------------------------
EXTENDS ZarrBuffer, TLC, Json
CONSTANTS MaxWarm, MaxSample, MaxFlush, Emit
VARIABLES hist, nflush
mvars == <<zvars, hist, nflush>>
MCInit == ZInit /\ hist = <<>> /\ nflush = 0
MCNext ==
    \/ /\ phase = "warm" /\ Len(log["warm"]) < MaxWarm /\ Push
       /\ hist' = Append(hist, "w") /\ UNCHANGED nflush
    \/ /\ phase = "warm" /\ Switch /\ UNCHANGED <<hist, nflush>>
    \/ /\ phase = "sample" /\ Len(log["sample"]) < MaxSample /\ Push
       /\ hist' = Append(hist, "s") /\ UNCHANGED nflush
    \/ /\ Land /\ UNCHANGED <<hist, nflush>>
    \/ /\ nflush < MaxFlush /\ Flush /\ hist' = Append(hist, "f") /\ nflush' = nflush + 1
    \/ /\ Finalize /\ UNCHANGED <<hist, nflush>>
MCSpec == MCInit /\ [][MCNext]_mvars
EmitReplay == (Emit /\ finalized) => PrintT(<<"REPLAY", ToJson([hist |-> hist])>>)
\* vacuity: a partial chunk is overwritten by a later full write of the same chunk
NoOverwrite == ~(\E p \in Phases : flushedLen[p] > 0 /\ flushedLen[p] % ChunkSize # 0
                    /\ Len(log[p]) >= ((flushedLen[p] \div ChunkSize) + 1) * ChunkSize /\ finalized)
=============================================================================
