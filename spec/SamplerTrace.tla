---------------------------- MODULE SamplerTrace ----------------------------
(***************************************************************************)
(* Trace validation of the real parallel Sampler against the Sampler spec. *)
(* The log (env var TRACE) is the global, mutex-ordered event list of one   *)
(* or more runs with the same (number of chains, num_cores, draws):         *)
(* hook events of controller and chain tasks plus the call / return events  *)
(* of the scripted user thread.                                             *)
(*                                                                          *)
(* Ordering conventions that make log order a real-time order the spec can  *)
(* trust: channel sends are logged before the send (and, for mailboxes, a   *)
(* second time after it), receives after the receive; events inside the     *)
(* trace mutex are logged while it is held.  Steps with no hook (result     *)
(* channel traffic inside wait_timeout, taking the slots in finalize_many,  *)
(* the end of the rayon scope, failing steps that leave no event) are       *)
(* silent actions that TLC infers.                                          *)
(*                                                                          *)
(* C10 is checked here too: every draw a chain produced must be the draw    *)
(* the same chain produces when run alone (FullPos from a sequential        *)
(* reference run in the harness).                                           *)
(***************************************************************************)
EXTENDS Sampler, TLC, Json, IOUtils

Rec == ndJsonDeserialize(IOEnv.TRACE)

VARIABLES l,        \* next line
          unconf,   \* per chain: messages whose send is logged as started but not as finished
          fullpos,  \* reference: per chain (1-based) the position hash of every draw
          pdiv, psteps,  \* progress counters the trace implies (post-warm-up divergences, steps)
          aliveSeen,     \* per chain: its command sender still existed at the chain's previous event (a poll that
                         \* found the mailbox empty is logged after it happened, possibly after the sender was dropped)
          emptySeen,     \* per chain: its mailbox held no confirmed message at some instant since the
                         \* chain's previous event (a poll is logged after it happened)
          flushedSet,    \* chains whose storage was flushed while the current flush command is handled
          mustfail,      \* chains whose density raised an unrecoverable error inside the current draw
          lastcb,        \* per chain: finished draws reported by the last progress callback
          snap           \* per chain: rec[i] if the chain was quiescent when the controller took the
                         \* current command, else -1

tvars == <<vars, l, unconf, fullpos, pdiv, psteps, emptySeen, aliveSeen, snap, lastcb, mustfail, flushedSet>>
R == Rec[l]
IsEvent(e) == l <= Len(Rec) /\ Rec[l].ev = e /\ l' = l + 1
Silent == UNCHANGED <<l, unconf, fullpos, pdiv, psteps, emptySeen, aliveSeen, snap, lastcb, mustfail, flushedSet>>
Keep == UNCHANGED <<unconf, fullpos, pdiv, psteps, emptySeen, aliveSeen, snap, lastcb, mustfail, flushedSet>>
KeepBut(i) == /\ UNCHANGED <<unconf, fullpos, pdiv, psteps, snap, lastcb, mustfail, flushedSet>>
              /\ emptySeen' = [emptySeen EXCEPT ![i] = (Len(mailbox'[i]) <= unconf[i])]
              /\ aliveSeen' = [aliveSeen EXCEPT ![i] = alive'[i]]

Zero == [i \in Chains |-> 0]
TInit == TLCSet(2, 0) /\ Init /\ l = 1 /\ unconf = Zero /\ fullpos = <<>> /\ pdiv = Zero /\ psteps = Zero
         /\ emptySeen = [i \in Chains |-> TRUE] /\ aliveSeen = [i \in Chains |-> TRUE] /\ snap = [i \in Chains |-> -1] /\ lastcb = [i \in Chains |-> 0] /\ mustfail = {} /\ flushedSet = {}

\* ---- run boundaries -----------------------------------------------------
TrReset ==
    /\ IsEvent("reset")
    /\ R.chains = NChains /\ R.cores = NumCores /\ R.draws = Draws
    \* C10: different chains use different random streams (sequential reference runs differ)
    /\ R.distinct
    \* the previous run must have ended properly (or this is the first line)
    /\ l = 1 \/ Terminated \/ (upc.st = "done" /\ ures = "err")
    /\ upc' = [st |-> "idle", cmd |-> "none"]
    /\ ures' = "none" /\ ncmd' = 0 /\ nwait' = 0
    /\ cpc' = [st |-> "recv", cmd |-> "none", k |-> 1]
    /\ paused' = FALSE
    /\ ch' = [i \in Chains |-> [st |-> "queued", msg |-> "empty", draw |-> 0]]
    /\ mailbox' = [i \in Chains |-> <<>>]
    /\ alive' = [i \in Chains |-> TRUE]
    /\ slot' = [i \in Chains |-> "present"]
    /\ holder' = [i \in Chains |-> FALSE]
    /\ rec' = Zero /\ prog' = Zero
    /\ results' = <<>> /\ senders' = NChains /\ cdone' = "no" /\ failed' = {}
    /\ win' = FALSE /\ quota' = Zero /\ since' = Zero
    /\ unconf' = Zero /\ fullpos' = R.fullpos /\ pdiv' = Zero /\ psteps' = Zero
    /\ emptySeen' = [i \in Chains |-> TRUE] /\ aliveSeen' = [i \in Chains |-> TRUE] /\ snap' = [i \in Chains |-> -1] /\ lastcb' = [i \in Chains |-> 0] /\ mustfail' = {} /\ flushedSet' = {}

\* ---- user ---------------------------------------------------------------
TrUCall ==
    /\ IsEvent("u_call")
    /\ \/ R.cmd \in Cmds /\ UCall(R.cmd)
       \/ R.cmd = "wait" /\ UWait
       \/ R.cmd = "abort" /\ UAbort
    /\ Keep

\* return of pause/resume/progress/flush/inspect: the rendezvous already happened
TrURetCmd ==
    /\ IsEvent("u_ret") /\ R.cmd \in Cmds
    /\ IF R.ok
       THEN /\ upc.st = "idle"
            \* C11: when every chain is parked or finished the reported counters are the trace's
            /\ R.cmd = "progress" => \A i \in Chains : R.finished[i + 1] <= prog[i] + 1
            /\ R.cmd = "inspect" => \A i \in Chains : R.lens[i + 1] <= rec[i] /\ R.prefixok
            \* C10: a snapshot contains every chain whose storage exists and has recorded something, whatever that
            \* chain is doing at the moment
            /\ R.cmd = "inspect" => \A i \in Chains : (rec[i] > 0 /\ slot[i] = "present") => R.has[i + 1]
            /\ UNCHANGED vars
       ELSE UCallFails
    /\ Keep

TrURetWait ==
    /\ IsEvent("u_ret") /\ R.cmd = "wait"
    /\ CASE R.res = "timeout" -> UWaitTimeout
         [] R.res = "trace" -> UJoin /\ ures' = "trace"
         \* the Err result was taken from the channel (silently, it drops the sampler) or the
         \* controller thread itself ended with an error
         [] R.res = "err" -> \/ (upc.st = "done" /\ ures = "err" /\ UNCHANGED vars)
                             \/ (UJoin /\ ures' = "err")
    /\ Keep

TrURetAbort ==
    /\ IsEvent("u_ret") /\ R.cmd = "abort"
    /\ UJoin
    /\ ures' = R.res
    /\ Keep

\* ---- controller ---------------------------------------------------------
TrCtlRecv ==
    /\ IsEvent("ctl_recv")
    /\ IF R.cmd = "disconnected" THEN CtlDisconnected
       ELSE CtlRecv /\ cpc'.cmd = R.cmd
    \* chains that cannot move while this command is handled
    /\ snap' = [i \in Chains |->
                  IF i \notin failed /\ (ch[i].st = "done" \/ (ch[i].st = "parked" /\ mailbox[i] = <<>>))
                  THEN rec[i] ELSE -1]
    /\ flushedSet' = {}
    /\ UNCHANGED <<unconf, fullpos, pdiv, psteps, emptySeen, aliveSeen, lastcb, mustfail>>

\* the recording storage of chain i was asked to flush (a harness event of the storage backend).  While the
\* controller handles a flush command it counts towards "the command reached every chain"; a flush at any other
\* time (a chain flushing on its own) is not forbidden by anything and changes nothing here
TrStFlush ==
    /\ IsEvent("st_flush")
    /\ flushedSet' = IF cpc.st = "handle" /\ cpc.cmd = "flush" THEN flushedSet \cup {R.i} ELSE flushedSet
    /\ UNCHANGED <<vars, unconf, fullpos, pdiv, psteps, emptySeen, aliveSeen, snap, lastcb, mustfail>>

\* the progress callback, called on the controller thread at start-up, whenever `rate` has
\* elapsed without a command, and once more when the command channel is closed: per chain the
\* reported counters never go back, never run ahead of what the chain has done, the total is
\* the number of draws asked for, and a chain that has finished a draw has started
TrCallback ==
    /\ IsEvent("cb")
    /\ cpc.st \in {"recv", "finalize"}
    /\ \A i \in Chains :
          /\ R.finished[i + 1] >= lastcb[i]
          /\ R.finished[i + 1] <= prog[i] + (IF ch[i].st = "locked" THEN 1 ELSE 0)
          /\ R.total[i + 1] = Draws
          /\ R.finished[i + 1] > 0 => R.started[i + 1]
    /\ lastcb' = [i \in Chains |-> R.finished[i + 1]]
    /\ UNCHANGED <<vars, unconf, fullpos, pdiv, psteps, emptySeen, aliveSeen, snap, mustfail, flushedSet>>

TrCtlFwd ==
    /\ IsEvent("ctl_fwd")
    /\ cpc.st = "handle" /\ cpc.k <= NChains /\ ChainSeq[cpc.k] = R.i
    /\ R.msg = (IF cpc.cmd = "pause" THEN "Pause" ELSE "Resume")
    /\ CtlForward
    /\ unconf' = [unconf EXCEPT ![R.i] = @ + 1]
    /\ UNCHANGED <<fullpos, pdiv, psteps, emptySeen, aliveSeen, snap, lastcb, mustfail, flushedSet>>

TrCtlFwdDone ==
    /\ IsEvent("ctl_fwd_done")
    \* (the receiver may already have taken the message)
    /\ unconf' = [unconf EXCEPT ![R.i] = IF @ > 0 THEN @ - 1 ELSE 0]
    /\ UNCHANGED <<vars, fullpos, pdiv, psteps, emptySeen, aliveSeen, snap, lastcb, mustfail, flushedSet>>

\* before responses_tx.send: per-chain visits of flush / inspect / progress carry no
\* event of their own and are folded in
TrCtlResp ==
    /\ IsEvent("ctl_resp")
    /\ cpc.st = "handle" /\ cpc.cmd = R.cmd
    /\ cpc.cmd \in {"pause", "resume"} => cpc.k > NChains
    \* C15 / C11: a flush reaches the storage of every chain that still has one - also of a chain that has
    \* recorded its last draw (its trailing draws may only be in a buffer)
    /\ cpc.cmd = "flush" => flushedSet = {i \in Chains : slot[i] = "present"}
    \* C11: for chains that were quiescent the reported counters are exactly the trace's
    /\ cpc.cmd = "progress" =>
          \A i \in Chains :
             \* (a chain that has drawn may already have bumped its counter inside the
             \* trace lock although its `ch_locked` event is not logged yet)
             /\ R.finished[i + 1] <= prog[i] + (IF ch[i].st = "locked" THEN 1 ELSE 0)
             /\ snap[i] >= 0 => /\ R.finished[i + 1] = snap[i]
                                /\ R.divergences[i + 1] = pdiv[i]
                                /\ R.steps[i + 1] = psteps[i]
    /\ upc.st = "awaiting"
    /\ paused' = IF cpc.cmd = "pause" THEN TRUE ELSE IF cpc.cmd = "resume" THEN FALSE ELSE paused
    /\ cpc' = [st |-> "recv", cmd |-> "none", k |-> 1]
    /\ upc' = [st |-> "idle", cmd |-> "none"]
    /\ IF cpc.cmd = "pause"
       THEN /\ win' = TRUE
            /\ quota' = [i \in Chains |-> Len(mailbox[i])]
            /\ since' = [i \in Chains |-> 0]
       ELSE UNCHANGED <<win, quota, since>>
    /\ UNCHANGED <<ures, ncmd, nwait, ch, mailbox, alive, slot, holder, rec, prog,
                   results, senders, cdone, failed>>
    /\ Keep

TrCtlFinalize ==
    /\ IsEvent("ctl_finalize")
    /\ cpc.st = "finalize"
    /\ UNCHANGED vars /\ Keep

TrCtlFinalized ==
    /\ IsEvent("ctl_finalized")
    /\ CtlFinalized
    /\ Keep

\* ---- chains -------------------------------------------------------------
\* A poll may report "empty" although a message is in the mailbox as long as
\* that message's send may not have completed yet.
PollSeen(i, m) ==
    CASE m = "empty" -> (emptySeen[i] \/ Len(mailbox[i]) <= unconf[i]) /\ (alive[i] \/ aliveSeen[i])
      [] m = "disconnected" -> mailbox[i] = <<>> /\ ~alive[i]
      [] OTHER -> mailbox[i] # <<>> /\ Head(mailbox[i]) = m

TrChStart ==
    /\ IsEvent("ch_start") /\ ChStart(R.i) /\ KeepBut(R.i)

TrChMsg ==
    /\ IsEvent("ch_msg")
    /\ PollSeen(R.i, R.msg)
    /\ CASE R.how = "init" -> ChInit(R.i, FALSE, R.msg)
         [] R.how = "block" -> ChUnpark(R.i, R.msg)
         [] R.how = "try" -> ChPoll(R.i, R.msg)
    \* a popped message can no longer be unconfirmed
    /\ unconf' = [unconf EXCEPT ![R.i] = IF @ > Len(mailbox'[R.i]) THEN Len(mailbox'[R.i]) ELSE @]
    /\ emptySeen' = [emptySeen EXCEPT ![R.i] = (Len(mailbox'[R.i]) <= unconf'[R.i])]
    /\ aliveSeen' = [aliveSeen EXCEPT ![R.i] = alive'[R.i]]
    /\ UNCHANGED <<fullpos, pdiv, psteps, snap, lastcb, mustfail, flushedSet>>

TrChCheck ==
    /\ IsEvent("ch_check")
    /\ ChCheck(R.i)
    /\ ch'[R.i].st = R.to
    /\ KeepBut(R.i)

\* the density of chain i raised an unrecoverable error.  During the initialisation attempts this
\* is retried by design; inside a draw the draw must fail (C13: it must not be swallowed)
TrFatalFired ==
    /\ IsEvent("fatal_fired")
    /\ mustfail' = IF R.i \in Chains /\ ch[R.i].st = "drawing" THEN mustfail \cup {R.i} ELSE mustfail
    /\ UNCHANGED <<vars, unconf, fullpos, pdiv, psteps, emptySeen, aliveSeen, snap, lastcb, flushedSet>>

TrChDrawn ==
    /\ IsEvent("ch_drawn")
    /\ R.i \notin mustfail
    /\ ChDraw(R.i, FALSE)
    /\ R.k = ch[R.i].draw
    \* C10: the draw is the one this chain produces when run alone
    /\ R.k + 1 <= Len(fullpos[R.i + 1]) /\ fullpos[R.i + 1][R.k + 1] = R.hash
    /\ KeepBut(R.i)

TrChLocked ==
    /\ IsEvent("ch_locked")
    /\ slot[R.i] = R.slot
    /\ ChLock(R.i)
    /\ KeepBut(R.i)

TrChRecorded ==
    /\ IsEvent("ch_recorded")
    /\ ChRecord(R.i, FALSE)
    /\ R.k = ch[R.i].draw
    /\ pdiv' = [pdiv EXCEPT ![R.i] = IF R.diverging /\ ~R.tuning THEN @ + 1 ELSE @]
    /\ psteps' = [psteps EXCEPT ![R.i] = @ + R.num_steps]
    /\ emptySeen' = [emptySeen EXCEPT ![R.i] = (Len(mailbox'[R.i]) <= unconf[R.i])]
    /\ aliveSeen' = [aliveSeen EXCEPT ![R.i] = alive'[R.i]]
    /\ UNCHANGED <<unconf, fullpos, snap, lastcb, mustfail, flushedSet>>

TrChResult ==
    /\ IsEvent("ch_result")
    /\ ChFinish(R.i)
    /\ R.ok = (ch[R.i].msg = "ok")
    \* C13: a chain ends with an error only if something unrecoverable was injected into it (harness side, from the scenario)
    /\ ~R.spurious
    /\ KeepBut(R.i)

\* what the run handed back, compared harness-side with the reference run
TrFinal ==
    /\ IsEvent("final")
    /\ upc.st = "done"
    /\ R.outcome = ures
    \* C13: a failure in any chain is reported by the terminal call (Err, or an error next to the trace)
    /\ failed # {} => R.outcome \in {"err", "errabort"}
    \* ... and without a failure nothing is reported as one
    /\ failed = {} => R.outcome \in {"trace", "okabort"}
    /\ R.prefixok
    /\ R.hastrace => \A i \in Chains : R.lens[i + 1] = rec[i]
    \* C11: a run that was not aborted and did not fail is complete
    /\ (ures = "trace") => \A i \in Chains : rec[i] = Draws
    /\ UNCHANGED vars /\ Keep

\* ---- silent steps ---------------------------------------------------------
SilentNext ==
    /\ \/ UWaitRecv                                 \* a result consumed inside wait_timeout
       \/ UWaitDisconnected
       \/ CtlTake
       \/ CtlExit
       \/ \E i \in Chains : \/ ChInit(i, TRUE, "empty")
                            \/ ChDraw(i, TRUE)
                            \/ ChRecord(i, TRUE)
    /\ Silent

TNext == \/ TrReset \/ TrUCall \/ TrURetCmd \/ TrURetWait \/ TrURetAbort
         \/ TrCtlRecv \/ TrStFlush \/ TrCallback \/ TrCtlFwd \/ TrCtlFwdDone \/ TrCtlResp \/ TrCtlFinalize \/ TrCtlFinalized
         \/ TrFatalFired \/ TrChStart \/ TrChMsg \/ TrChCheck \/ TrChDrawn \/ TrChLocked \/ TrChRecorded
         \/ TrChResult \/ TrFinal
         \/ SilentNext

TSpec == TInit /\ [][TNext]_tvars

\* progress of the search: the highest line reached (register 2; needs -workers 1)
Progress == TLCSet(2, IF l > TLCGet(2) THEN l ELSE TLCGet(2))
ProgressInit == TLCSet(2, 0)

Accepted ==
    LET m == TLCGet(2)
    IN IF m = Len(Rec) + 1 THEN TRUE
       ELSE Print(<<"TRACE-REJECTED at line", m, Rec[m]>>, FALSE)

SafetyInv == TypeOK /\ PrefixOK /\ QuiescentAgree /\ PauseBound /\ ParkedSilent /\ NoPanic
=============================================================================
