-------------------------------- MODULE QRat --------------------------------
(* Exact signed rationals <<n, d>> (d > 0, reduced), vectors as sequences.    *)
(* TLC integers are 32 bit and overflow is an error, so finished = exact.     *)
EXTENDS Integers, Sequences

Abs(x) == IF x < 0 THEN -x ELSE x
Mod(a, b) == a % b
RECURSIVE QGcd(_, _)
QGcd(a, b) == IF b = 0 THEN a ELSE QGcd(b, a % b)
Q(n, d) == IF n = 0 THEN <<0, 1>>
           ELSE LET s == IF d < 0 THEN -1 ELSE 1
                    g == QGcd(Abs(n), Abs(d))
                IN <<(s * n) \div g, (s * d) \div g>>
QI(k) == <<k, 1>>
\* least-common-denominator addition and cross-reduced multiplication keep intermediates small
QAdd(a, b) == LET g == QGcd(a[2], b[2])
              IN Q(a[1] * (b[2] \div g) + b[1] * (a[2] \div g), (a[2] \div g) * b[2])
QNeg(a) == <<-a[1], a[2]>>
QSub(a, b) == QAdd(a, QNeg(b))
QMul(a, b) == IF a[1] = 0 \/ b[1] = 0 THEN <<0, 1>>
              ELSE LET g1 == QGcd(Abs(a[1]), b[2])
                       g2 == QGcd(Abs(b[1]), a[2])
                   IN Q((a[1] \div g1) * (b[1] \div g2), (a[2] \div g2) * (b[2] \div g1))
QDiv(a, b) == QMul(a, IF b[1] < 0 THEN <<-b[2], -b[1]>> ELSE <<b[2], b[1]>>)
QLt(a, b) == QSub(a, b)[1] < 0
QHalf(a) == Q(a[1], 2 * a[2])

\* vectors
VAdd(x, y) == [i \in 1..Len(x) |-> QAdd(x[i], y[i])]
VSub(x, y) == [i \in 1..Len(x) |-> QSub(x[i], y[i])]
VMul(x, y) == [i \in 1..Len(x) |-> QMul(x[i], y[i])]
VDivE(x, y) == [i \in 1..Len(x) |-> QDiv(x[i], y[i])]
VScale(a, x) == [i \in 1..Len(x) |-> QMul(a, x[i])]
RECURSIVE QSum(_, _)
QSum(x, k) == IF k = 0 THEN <<0, 1>> ELSE QAdd(x[k], QSum(x, k - 1))
VDot(x, y) == QSum(VMul(x, y), Len(x))
=============================================================================
