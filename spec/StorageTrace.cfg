SPECIFICATION TSpec
INVARIANTS ViewsAreSubsequences WarmBeforeSample
POSTCONDITION Accepted
CHECK_DEADLOCK FALSE
