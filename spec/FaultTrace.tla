----------------------------- MODULE FaultTrace -----------------------------
(* Fault enumeration runs of real chains (vh fault-sweep), one line per API  *)
(* call, validated against FaultSemantics.                                   *)
EXTENDS FaultSemantics, TLC, Json, IOUtils

Rec == ndJsonDeserialize(IOEnv.TRACE)
VARIABLE l
tvars == <<fvars, l>>
R == Rec[l]
IsEvent(e) == l <= Len(Rec) /\ Rec[l].e = e /\ l' = l + 1

\* faults come as a JSON array of [phase, kind] pairs
FSet(a) == {<<a[k][1], a[k][2]>> : k \in 1..Len(a)}

TInit == FInit /\ l = 1
TrReset == IsEvent("reset") /\ mode' = "fresh" /\ lastCall' = [call |-> "none"]
TrSetPos == IsEvent("setpos") /\ SetPosition(R.res, FSet(R.faults))
TrDraw == IsEvent("draw") /\ Draw(R.res, R.div, R.fin, FSet(R.faults))
TNext == TrReset \/ TrSetPos \/ TrDraw
TSpec == TInit /\ [][TNext]_tvars

Accepted ==
    LET d == TLCGet("stats").diameter
    IN IF d - 1 = Len(Rec) THEN TRUE
       ELSE Print(<<"TRACE-REJECTED at line", d, Rec[d]>>, FALSE)

\* design check of the rule set itself
RulesConsistent == Total /\ FatalForcesErr
=============================================================================
