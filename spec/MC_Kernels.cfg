CONSTANTS
  MaxLen = 130
  SpecialLens = {1, 2, 3, 4, 5, 7, 8, 9, 15, 16, 17, 31, 32, 33, 63, 64, 65, 129, 130}
SPECIFICATION MCSpec
INVARIANT Emit
CHECK_DEADLOCK FALSE
