---------------------------- MODULE MC_StatePool ----------------------------
(***************************************************************************)
(* Bounded instance of StatePool: invariants exhaustively (MCSpec), and    *)
(* one REPLAY line per call sequence of length Steps with the state the    *)
(* model expects after every call (HistSpec), consumed by `vh replay-pool`.*)
(***************************************************************************)
EXTENDS StatePool, TLC, Json

CONSTANT Steps
VARIABLE hist

MCSpec == SPInit /\ hist = <<>> /\ [][SPNext /\ UNCHANGED hist]_<<spvars, hist>>

Obs == [op |-> act.op, a |-> act.a, b |-> act.b, v |-> act.v, ok |-> act.ok,
        cells |-> cell,
        vals |-> [h \in Handles |-> IF cell[h] = NoCell THEN 0 ELSE val[cell[h]]],
        alloc |-> alloc, gone |-> Cardinality(gone), nfree |-> Len(free)]

HistInit == SPInit /\ hist = <<>>
HistNext == Len(hist) < Steps /\ SPNext /\ hist' = Append(hist, Obs')
HistSpec == HistInit /\ [][HistNext]_<<spvars, hist>>

Emit == (Len(hist) = Steps) => PrintT(<<"REPLAY", ToJson([ops |-> hist])>>)
\* vacuity: a shared cell, a refused write, a recycled cell and a dropped pool with a live state are all reachable
SeenShared == ~(\E a, b \in Handles : a # b /\ cell[a] # NoCell /\ cell[a] = cell[b])
SeenRefused == ~(act.op = "mut" /\ ~act.ok)
\* a recycled cell shows its old content
SeenRecycled == ~(act.op = "new" /\ val[cell[act.a]] # 0)
SeenOrphan == ~(~poolAlive /\ Live # {})
=============================================================================
