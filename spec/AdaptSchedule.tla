--------------------------- MODULE AdaptSchedule ---------------------------
(***************************************************************************)
(* The warm-up schedule of nuts-rs: GlobalStrategy::adapt                 *)
(* (src/adapt_strategy.rs) and ExternalTransformAdaptation::adapt         *)
(* (src/external_adapt_strategy.rs), one action per call of adapt (= one  *)
(* draw).  The floating point content (variances, step sizes) is not      *)
(* modelled; the schedule is pure integer logic:                          *)
(*                                                                         *)
(*   fg / bg     the two estimators, each the multiset of accepted draws  *)
(*               since some switch; represented by [n, start] = count and *)
(*               the index of the first draw that can be in it            *)
(*   window      current target size of main-phase windows                *)
(*   tid         transformation id (bumped on each change)                *)
(*   fed         which acceptance statistic the step-size estimator got   *)
(*                                                                         *)
(* Inputs per draw: good (the collector accepted the draw), bump (a       *)
(* requested update really changed the transformation; always TRUE for    *)
(* the diagonal strategy with >= 3 draws).                                *)
(***************************************************************************)
EXTENDS Integers, Sequences, FiniteSets

VARIABLES
    P,          \* schedule constants of this chain (record), fixed after Start
    draw,       \* number of adapt calls so far = index of the next draw
    tuning,     \* what is_tuning() returns after the last adapt
    fg, bg,     \* estimators: [n, start]
    window,
    lastUpdate,
    hasInitial, \* has_initial_mass_matrix: the step-size search has not been re-run yet
    tid,
    switches,   \* history: draw indices at which a switch happened
    lastEv      \* what the last adapt did: [branch, switched, changed, research, fed, good]

svars == <<P, draw, tuning, fg, bg, window, lastUpdate, hasInitial, tid, switches, lastEv>>

NoEv == [branch |-> "none", switched |-> FALSE, changed |-> FALSE, research |-> FALSE,
         fed |-> "none", good |-> FALSE]

\* round(w * gn / gd) for positive arguments (f64::round: half away from zero)
RoundMul(w, gn, gd) == (2 * w * gn + gd) \div (2 * gd)
Max(a, b) == IF a >= b THEN a ELSE b

\* MinCount: an update is attempted only with at least this many draws (3).
Start(p) ==
    /\ P = p
    /\ draw = 0 /\ tuning = TRUE
    \* the initial point is added to both estimators by init()
    /\ fg = [n |-> 1, start |-> -1] /\ bg = [n |-> 1, start |-> -1]
    /\ window = p.mainFreq
    /\ lastUpdate = 0 /\ hasInitial = TRUE
    /\ tid = 0
    /\ switches = <<>> /\ lastEv = NoEv

\* --- GlobalStrategy::adapt -------------------------------------------------
AdaptPost ==
    /\ draw >= P.numTune
    /\ tuning' = FALSE
    /\ lastEv' = [NoEv EXCEPT !.branch = "post"]
    /\ UNCHANGED <<fg, bg, window, lastUpdate, hasInitial, tid, switches>>

AdaptFinal ==
    /\ draw < P.numTune /\ draw >= P.finalWindow
    /\ lastEv' = [NoEv EXCEPT !.branch = "final", !.fed = "late"]
    /\ UNCHANGED <<tuning, fg, bg, window, lastUpdate, hasInitial, tid, switches>>

AdaptMass(good, bump) ==
    /\ draw < P.numTune /\ draw < P.finalWindow
    /\ LET isEarly == draw < P.earlyEnd
           \* seed the main-phase window at the transition
           w0 == IF ~isEarly /\ draw = P.earlyEnd THEN Max(window, bg.n) ELSE window
           switchFreq == IF isEarly THEN P.earlyFreq ELSE w0
           fg1 == IF good THEN [fg EXCEPT !.n = @ + 1] ELSE fg
           bg1 == IF good THEN [bg EXCEPT !.n = @ + 1] ELSE bg
           couldSwitch == bg1.n >= switchFreq
           nextW == IF isEarly THEN P.earlyFreq
                    ELSE Max(w0 + 1, RoundMul(w0, P.gn, P.gd))
           isLate == nextW + draw > P.finalWindow
           doSwitch == couldSwitch /\ ~isLate
           fg2 == IF doSwitch THEN bg1 ELSE fg1
           bg2 == IF doSwitch THEN [n |-> 0, start |-> draw + 1] ELSE bg1
           w1 == IF doSwitch /\ ~isEarly THEN nextW ELSE w0
           tryUpdate == doSwitch \/ (draw - lastUpdate >= P.updFreq)
           didChange == tryUpdate /\ fg2.n >= 3
       IN /\ fg' = fg2 /\ bg' = bg2 /\ window' = w1
          /\ switches' = IF doSwitch THEN Append(switches, draw) ELSE switches
          /\ lastUpdate' = IF didChange THEN draw ELSE lastUpdate
          /\ tid' = IF didChange /\ bump THEN tid + 1 ELSE tid
          /\ hasInitial' = IF didChange THEN FALSE ELSE hasInitial
          /\ lastEv' = [branch |-> "mass", switched |-> doSwitch, changed |-> didChange,
                        research |-> didChange /\ hasInitial,
                        fed |-> IF isLate THEN "late" ELSE "early", good |-> good]
    /\ UNCHANGED tuning

Adapt(good, bump) ==
    /\ P.kind = "global"
    /\ \/ AdaptPost \/ AdaptFinal \/ AdaptMass(good, bump)
    /\ draw' = draw + 1
    /\ UNCHANGED P

\* --- ExternalTransformAdaptation::adapt -----------------------------------
\* The flow parameters are refitted every 10 draws during the first 100 and
\* every updFreq draws afterwards; whether a refit changes the id is up to
\* the user's flow (bump).
ExtMayUpdate == /\ draw > 0
                /\ IF draw < 100 THEN draw % 10 = 0 ELSE draw % P.updFreq = 0
AdaptExtMass(bump) ==
    /\ draw < P.numTune /\ draw < P.finalWindow
    /\ tid' = IF ExtMayUpdate /\ bump THEN tid + 1 ELSE tid
    /\ lastEv' = [branch |-> "mass", switched |-> FALSE, changed |-> ExtMayUpdate /\ bump,
                  research |-> FALSE, fed |-> "early", good |-> TRUE]
    /\ UNCHANGED <<tuning, fg, bg, window, lastUpdate, hasInitial, switches>>

AdaptExt(bump) ==
    /\ P.kind = "external"
    /\ \/ AdaptPost \/ AdaptFinal \/ AdaptExtMass(bump)
    /\ draw' = draw + 1
    /\ UNCHANGED P

\* ------------------------------- properties ------------------------------
\* C06: exactly the first numTune draws are reported as tuning.  After the
\* adapt call of draw d (draw = d + 1), is_tuning() = (d < numTune).
TuningExact == draw > 0 => (tuning <=> (draw - 1 < P.numTune))

\* C06: no transformation change from the start of the final window on.
FrozenInFinal ==
    (draw > 0 /\ draw - 1 >= P.finalWindow) => (~lastEv.changed /\ ~lastEv.switched)

\* C09: a switch needs a full window in the background estimator and room
\* for another full window before the final step-size window.
SwitchRule ==
    lastEv.switched =>
        LET d == draw - 1
        IN /\ fg.n >= (IF d < P.earlyEnd THEN P.earlyFreq ELSE P.mainFreq)
           /\ d + (IF d < P.earlyEnd THEN P.earlyFreq ELSE window) <= P.finalWindow

\* C09: the estimator in use only contains draws since the switch before
\* the last one (nothing older than two windows).
Stale ==
    /\ Len(switches) >= 2 => fg.start = switches[Len(switches) - 1] + 1
    /\ Len(switches) >= 1 => bg.start = switches[Len(switches)] + 1
    /\ fg.start <= bg.start

\* C09: main-phase windows never shrink and grow by at least one per switch.
WindowMonotone == window >= P.mainFreq

\* C09: the step-size search is re-run exactly at the first change.
ResearchOnce == lastEv.research => (lastEv.changed /\ ~hasInitial)

\* C09/C07: statistic routing.
Routing ==
    /\ lastEv.branch = "final" => lastEv.fed = "late"
    /\ lastEv.branch = "post" => lastEv.fed = "none"
    /\ lastEv.branch = "mass" => lastEv.fed \in {"early", "late"}

ScheduleInv == TuningExact /\ FrozenInFinal /\ SwitchRule /\ Stale /\ WindowMonotone
               /\ ResearchOnce /\ Routing
=============================================================================
