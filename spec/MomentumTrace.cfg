SPECIFICATION TSpec
INVARIANT Ordered
POSTCONDITION Accepted
CHECK_DEADLOCK FALSE
