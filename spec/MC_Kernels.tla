----------------------------- MODULE MC_Kernels -----------------------------
(* Every length 0..MaxLen with inputs in which every element matters and is   *)
(* distinguishable; a single special value swept over every position for a    *)
(* set of lengths around the SIMD main-loop / tail boundaries.                *)
EXTENDS Kernels, TLC, Json
CONSTANTS MaxLen, SpecialLens
VARIABLE c
X(n) == [i \in 1..n |-> i]
Y(n) == [i \in 1..n |-> ((7 * i) % 11) - 5]
P1(n) == [i \in 1..n |-> (3 * i) % 5]
N1(n) == [i \in 1..n |-> i % 3]
P2(n) == [i \in 1..n |-> ((2 * i) % 7) - 3]
A2s == {-4, -1, 0, 1, 6}
MCInit == \/ c \in [kind : {"exact"}, n : 0..MaxLen]
          \/ c \in {[kind |-> "special", n |-> n, k |-> k, sp |-> sp] :
                        n \in SpecialLens, k \in 1..130, sp \in {"nan", "pinf", "ninf"}}
MCNext == UNCHANGED c
MCSpec == MCInit /\ [][MCNext]_c
Valid == c.kind = "special" => c.k <= c.n
Emit ==
    IF c.kind = "exact"
    THEN LET n == c.n IN
         PrintT(<<"REPLAY", ToJson([kind |-> "exact", n |-> n, x |-> X(n), y |-> Y(n), p1 |-> P1(n), n1 |-> N1(n), p2 |-> P2(n),
                  axpy2 |-> [a2 \in A2s |-> Axpy2(X(n), Y(n), a2)], mult |-> Mult(X(n), Y(n)), dot |-> Dot(X(n), Y(n)),
                  prods2 |-> Prods2(P1(n), P2(n), X(n), Y(n)), prods3 |-> Prods3(P1(n), N1(n), P2(n), X(n), Y(n)),
                  sqnorm |-> SqNormSum(X(n), Y(n))])>>)
    ELSE IF c.k > c.n THEN TRUE
    ELSE LET n == c.n IN
         PrintT(<<"REPLAY", ToJson([kind |-> "special", n |-> n, k |-> c.k, sp |-> c.sp, x |-> X(n), y |-> Y(n),
                  dot |-> DotClass(c.sp, Y(n)[c.k]), axpy |-> [a2 \in A2s |-> AxpyClass(c.sp, a2)],
                  mult |-> MulClass(c.sp, Y(n)[c.k]), sq |-> SqClass(c.sp),
                  tests |-> [cl \in TestClasses |-> <<AllFinite(cl), AllFiniteNonzero(cl)>>]])>>)
=============================================================================
