----------------------------- MODULE MC_Kernels -----------------------------
(* Every length 0..MaxLen with inputs in which every element matters and is   *)
(* distinguishable; a single special value swept over every position for a    *)
(* set of lengths around the SIMD main-loop / tail boundaries.                *)
EXTENDS Kernels, TLC, Json
CONSTANTS MaxLen, SpecialLens
VARIABLE c
X(n) == [i \in 1..n |-> i]
Y(n) == [i \in 1..n |-> ((7 * i) % 11) - 5]
P1(n) == [i \in 1..n |-> (3 * i) % 5]
N1(n) == [i \in 1..n |-> i % 3]
P2(n) == [i \in 1..n |-> ((2 * i) % 7) - 3]
A2s == {-4, -1, 0, 1, 6}
\* low-rank cases: signed coordinate columns at spread positions (all ranks 0..n for small n, ranks up to 5 beyond),
\* Hadamard columns on a block of four coordinates
Vals == <<2, 3, 5, 7, 4>>
PermCols(n, r) == [j \in 1..r |-> <<((3 * j) % n) + 1, IF j % 2 = 0 THEN 1 ELSE -1>>]
PermOK(n, r) == r <= n /\ \A j1, j2 \in 1..r : j1 # j2 => PermCols(n, r)[j1][1] # PermCols(n, r)[j2][1]
HadRows == {<<>>, <<2>>, <<1, 4>>, <<3, 1, 2>>, <<1, 2, 3, 4>>}
Stds(n) == [i \in 1..n |-> IF i % 3 = 0 THEN 4 ELSE IF i % 3 = 1 THEN 1 ELSE 2]
SignPairs == {<<1, 0>>, <<1, 1>>, <<1, -1>>, <<-1, 1>>}
MCInit == \/ c \in [kind : {"exact"}, n : 0..MaxLen]
          \/ c \in [kind : {"flow"}, n : 0..MaxLen]
          \/ c \in {[kind |-> "lowrank", n |-> n, r |-> r] : n \in 1..MaxLen, r \in 0..5}
          \/ c \in {[kind |-> "had", n |-> n, b |-> b, js |-> js] : n \in SpecialLens, b \in 1..130, js \in HadRows}
          \/ c \in {[kind |-> "flowspecial", n |-> n, k |-> k, sp |-> sp] :
                        n \in SpecialLens, k \in 1..130, sp \in {"nan", "pinf", "ninf"}}
          \/ c \in {[kind |-> "special", n |-> n, k |-> k, sp |-> sp] :
                        n \in SpecialLens, k \in 1..130, sp \in {"nan", "pinf", "ninf"}}
MCNext == UNCHANGED c
MCSpec == MCInit /\ [][MCNext]_c
Valid == c.kind \in {"special", "flowspecial"} => c.k <= c.n
Emit ==
    IF c.kind = "exact"
    THEN LET n == c.n IN
         PrintT(<<"REPLAY", ToJson([kind |-> "exact", n |-> n, x |-> X(n), y |-> Y(n), p1 |-> P1(n), n1 |-> N1(n), p2 |-> P2(n),
                  axpy2 |-> [a2 \in A2s |-> Axpy2(X(n), Y(n), a2)], mult |-> Mult(X(n), Y(n)), dot |-> Dot(X(n), Y(n)),
                  prods2 |-> Prods2(P1(n), P2(n), X(n), Y(n)), prods3 |-> Prods3(P1(n), N1(n), P2(n), X(n), Y(n)),
                  sqnorm |-> SqNormSum(X(n), Y(n))])>>)
    ELSE IF c.kind = "flow"
    THEN LET n == c.n IN
         PrintT(<<"REPLAY", ToJson([kind |-> "flow", n |-> n, pos |-> X(n), vel |-> Y(n), grad |-> P2(n),
                  gradflow2 |-> [e2 \in A2s |-> GradFlow2(X(n), P2(n), Y(n), e2)],
                  \* the rotation for integer stand-ins of (cos, sin): identity, quarter turn, and a generic pair
                  rot |-> [cs \in {<<1, 0>>, <<0, 1>>, <<3, -2>>} |-> <<FlowPos(X(n), Y(n), cs[1], cs[2]), FlowVel(X(n), Y(n), cs[1], cs[2])>>]])>>)
    ELSE IF c.kind = "lowrank"
    THEN IF ~PermOK(c.n, c.r) THEN TRUE
         ELSE LET n == c.n  cols == PermCols(n, c.r)  vals == SubSeq(Vals, 1, c.r) IN
         PrintT(<<"REPLAY", ToJson([kind |-> "lowrank", n |-> n, cols |-> cols, vals |-> vals, rhs |-> Y(n),
                  out |-> LowRankPerm(cols, vals, Y(n))])>>)
    ELSE IF c.kind = "had"
    THEN IF c.b + 3 > c.n THEN TRUE
         ELSE LET n == c.n  vals == SubSeq(Vals, 1, Len(c.js)) IN
         PrintT(<<"REPLAY", ToJson([kind |-> "had", n |-> n, b |-> c.b, js |-> c.js, vals |-> vals, rhs |-> Y(n), stds |-> Stds(n),
                  out4 |-> LowRankHad4(c.js, vals, c.b, Y(n)), eigs4 |-> MultEigsHad4(Stds(n), c.js, vals, c.b, Y(n))])>>)
    ELSE IF c.k > c.n THEN TRUE
    ELSE IF c.kind = "flowspecial"
    THEN LET n == c.n IN
         PrintT(<<"REPLAY", ToJson([kind |-> "flowspecial", n |-> n, k |-> c.k, sp |-> c.sp, pos |-> X(n), vel |-> Y(n), grad |-> P2(n),
                  rot |-> [sg \in SignPairs |-> <<FlowPosClass(c.sp, sg[1]), FlowVelClass(c.sp, sg[2])>>],
                  gradflow |-> [e2 \in A2s |-> GradFlowClass(c.sp, e2)]])>>)
    ELSE LET n == c.n IN
         PrintT(<<"REPLAY", ToJson([kind |-> "special", n |-> n, k |-> c.k, sp |-> c.sp, x |-> X(n), y |-> Y(n),
                  dot |-> DotClass(c.sp, Y(n)[c.k]), axpy |-> [a2 \in A2s |-> AxpyClass(c.sp, a2)],
                  mult |-> MulClass(c.sp, Y(n)[c.k]), sq |-> SqClass(c.sp),
                  tests |-> [cl \in TestClasses |-> <<AllFinite(cl), AllFiniteNonzero(cl)>>]])>>)
=============================================================================
