---------------------------- MODULE MC_Momentum ----------------------------
EXTENDS Momentum
CONSTANTS MaxWord, MaxCalls
MCNext ==
    \/ \E from \in 0..MaxWord, to \in 0..MaxWord, dim \in 1..2 : to <= MaxWord /\ Draw(from, to, dim)
    \/ Leapfrog \/ SearchBoundary
    \/ (calls < MaxCalls /\ EndCall)
MCSpec == MoInit /\ [][MCNext]_movars
\* vacuity: two momenta must be reachable
TwoDraws == Len(used) < 2
=============================================================================
