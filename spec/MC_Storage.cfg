CONSTANTS
  MaxTune = 2
  MaxDraws = 2
  EmitOps = TRUE
SPECIFICATION MCSpec
INVARIANTS ViewsAreSubsequences WarmBeforeSample EmitReplay
CHECK_DEADLOCK FALSE
