------------------------------- MODULE Storage -------------------------------
(***************************************************************************)
(* C14 / C15: what a storage backend must return.                          *)
(*                                                                         *)
(* The abstract state is one append-only log per chain; a record is        *)
(* [tuning, div, upd] (was it a warm-up draw, did a divergence event / a   *)
(* transformation-update event occur).  Every backend is an observation    *)
(* function of that log.  A backend's answer arrives as a list of entries, *)
(* one per (variable, chain, group), whose rows are decoded harness-side   *)
(* to *codes*:                                                             *)
(*     r >= 0   the row holds exactly the values recorded in record r      *)
(*     -1       garbage (matches no record)                                *)
(*     -2       null / fill value                                          *)
(*     -4       empty string                                               *)
(*     1000+b   scalar boolean b     2000+p  boolean vector of parity p    *)
(* and the specification says which code sequence is right.                *)
(***************************************************************************)
EXTENDS Integers, Sequences, FiniteSets

VARIABLES log,      \* chain -> sequence of records
          cfg,      \* [chains, storeWarmup, fullEvents, optVecs, specials, numTune, numDraws]
          flushed   \* chain -> number of records covered by the last flush (C15)

stvars == <<log, cfg, flushed>>

NoCfg == [chains |-> 0, storeWarmup |-> TRUE, fullEvents |-> TRUE, optVecs |-> TRUE, specials |-> FALSE,
          numTune |-> 0, numDraws |-> 0]
SInit == log = <<>> /\ cfg = NoCfg /\ flushed = <<>>

Start(c) ==
    /\ cfg' = c
    /\ log' = [i \in 0..(c.chains - 1) |-> <<>>]
    /\ flushed' = [i \in 0..(c.chains - 1) |-> 0]

\* the sampler records warm-up draws first, then posterior draws
Record(c, tuning, div, upd) ==
    /\ c \in DOMAIN log
    /\ tuning => \A k \in 1..Len(log[c]) : log[c][k].tuning
    /\ log' = [log EXCEPT ![c] = Append(@, [tuning |-> tuning, div |-> div, upd |-> upd])]
    /\ UNCHANGED <<cfg, flushed>>

Flush ==
    /\ flushed' = [c \in DOMAIN log |-> Len(log[c])]
    /\ UNCHANGED <<log, cfg>>

\* ----------------------------- observation ------------------------------
\* record indices are 0-based (r = position - 1), like the harness's counters
Idx(c) == [k \in 1..Len(log[c]) |-> k - 1]
Sel(c, P(_)) == SelectSeq(Idx(c), P)

IsWarm(c, r) == log[c][r + 1].tuning
HasEv(c, r, ev) == CASE ev = "divergence" -> log[c][r + 1].div
                     [] ev = "transformation_update" -> log[c][r + 1].upd
                     [] OTHER -> TRUE

\* is variable v (a record of the entry: ev, ident, opt) present in record r?
Present(c, r, v) ==
    /\ HasEv(c, r, v.ev)
    /\ v.ev # "" => (v.ident \/ cfg.fullEvents)
    /\ v.opt => cfg.optVecs

\* the code a correct backend shows for record r of variable v
Code(c, r, v) ==
    CASE v.kind = "bool_tuning" -> 1000 + (IF log[c][r + 1].tuning THEN 1 ELSE 0)
      [] v.kind = "bool_div" -> 1000 + (IF log[c][r + 1].div THEN 1 ELSE 0)
      [] v.kind = "bool_parity" -> 1000 + (IF (r + c + v.nh) % 2 = 0 THEN 1 ELSE 0)
      [] v.kind = "boolvec" -> 2000 + ((r + c + v.nh) % 2)
      [] v.kind = "string" -> IF cfg.specials /\ (r + v.nh) % 3 = 0 THEN -4 ELSE r
      [] OTHER -> r

InPhase(c, r, phase) == CASE phase = "warm" -> IsWarm(c, r)
                          [] phase = "sample" -> ~IsWarm(c, r)
                          [] OTHER -> TRUE
Kept(c, r) == cfg.storeWarmup \/ ~IsWarm(c, r)

\* compact layout: only the records where the variable is present
Compact(c, v, phase) ==
    LET rs == Sel(c, LAMBDA r : InPhase(c, r, phase) /\ Kept(c, r) /\ Present(c, r, v))
    IN [k \in 1..Len(rs) |-> Code(c, rs[k], v)]
\* dense layout: one row per kept record, absent -> -2
Dense(c, v, phase) ==
    LET rs == Sel(c, LAMBDA r : InPhase(c, r, phase) /\ Kept(c, r))
    IN [k \in 1..Len(rs) |-> IF Present(c, rs[k], v) THEN Code(c, rs[k], v) ELSE -2]

FillLike(x) == x \in {-2, -4, 1000}

\* `rows` shows `want` followed only by fill values
PrefixThenFill(rows, want) ==
    /\ Len(rows) >= Len(want)
    /\ \A k \in 1..Len(want) : rows[k] = want[k] \/ (want[k] = -2 /\ FillLike(rows[k]))
    /\ \A k \in (Len(want) + 1)..Len(rows) : FillLike(rows[k])

\* What an entry must look like, per backend layout.
EntryOK(e) ==
    LET c == e.chain
        v == e.v
    IN CASE e.layout = "compact_split" ->            \* HashMap: warm-up values then posterior values
              e.rows = Compact(c, v, "warm") \o Compact(c, v, "sample")
         [] e.layout = "dense_nulls" ->              \* Arrow: one row per kept record, null when absent
              e.rows = Dense(c, v, "all")
         [] e.layout = "dense_fill" ->               \* ndarray: preallocated, absent / not yet recorded = fill
              PrefixThenFill(e.rows, Dense(c, v, "all"))
         [] e.layout = "zarr_plain" ->               \* Zarr: per phase group, preallocated
              PrefixThenFill(e.rows, Dense(c, v, e.phase))
         [] e.layout = "zarr_event" ->               \* Zarr event arrays: compact, then fill
              PrefixThenFill(e.rows, Compact(c, v, e.phase))
         [] e.layout = "zarr_event_final" ->         \* ... after finalize: resized to the largest event count
              /\ PrefixThenFill(e.rows, Compact(c, v, e.phase))
              /\ Len(e.rows) = e.maxcount
         [] e.layout = "csv" ->                      \* CSV: one line per kept record
              e.rows = Dense(c, v, "all")

\* C15: a reader that opens the store at any time sees at least everything recorded before
\* the last flush, unchanged; what was recorded later is either already there or still fill
Want(e) == IF e.layout \in {"zarr_event", "zarr_event_final"} THEN Compact(e.chain, e.v, e.phase)
           ELSE Dense(e.chain, e.v, e.phase)
WantFlushedLen(e) ==
    LET c == e.chain
        v == e.v
        rs == IF e.layout \in {"zarr_event", "zarr_event_final"}
              THEN Sel(c, LAMBDA r : InPhase(c, r, e.phase) /\ Kept(c, r) /\ Present(c, r, v) /\ r < flushed[c])
              ELSE Sel(c, LAMBDA r : InPhase(c, r, e.phase) /\ Kept(c, r) /\ r < flushed[c])
    IN Len(rs)
ReaderOK(e) ==
    LET want == Want(e)
        nf == WantFlushedLen(e)
    IN /\ Len(e.rows) >= nf
       /\ \A k \in 1..Len(e.rows) :
             IF k <= Len(want)
             THEN \/ e.rows[k] = want[k]
                  \/ (want[k] = -2 /\ FillLike(e.rows[k]))
                  \/ (k > nf /\ FillLike(e.rows[k]))
             ELSE FillLike(e.rows[k])

\* ---- design-level properties (checked by TLC on the abstract model) -------
\* nothing recorded is lost or invented, order is recording order
ViewsAreSubsequences ==
    \A c \in DOMAIN log :
        /\ Len(Sel(c, LAMBDA r : Kept(c, r))) <= Len(log[c])
        /\ cfg.storeWarmup => Len(Sel(c, LAMBDA r : Kept(c, r))) = Len(log[c])
        /\ ~cfg.storeWarmup => \A k \in 1..Len(Sel(c, LAMBDA r : Kept(c, r))) :
                                   ~IsWarm(c, Sel(c, LAMBDA r : Kept(c, r))[k])
WarmBeforeSample ==
    \A c \in DOMAIN log : \A i, j \in 1..Len(log[c]) : (i < j /\ log[c][j].tuning) => log[c][i].tuning
=============================================================================
