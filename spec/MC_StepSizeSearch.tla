------------------------- MODULE MC_StepSizeSearch -------------------------
EXTENDS StepSizeSearch
\* hist is a history variable for the property; it is needed in the state for Bracket.
=============================================================================
