---------------------------- MODULE StorageTrace ----------------------------
(* Operation sequences executed on the real backends (vh replay-storage),    *)
(* with every observation (inspect / finalize / fresh reader after flush and *)
(* after each later record) decoded to codes, validated against Storage.     *)
EXTENDS Storage, TLC, Json, IOUtils
Rec == ndJsonDeserialize(IOEnv.TRACE)
VARIABLE l
tvars == <<stvars, l>>
R == Rec[l]
IsEvent(e) == l <= Len(Rec) /\ Rec[l].e = e /\ l' = l + 1
TInit == SInit /\ l = 1

TrReset == IsEvent("reset") /\ Start([chains |-> R.chains, storeWarmup |-> R.storeWarmup, fullEvents |-> R.fullEvents,
                                      optVecs |-> R.optVecs, specials |-> R.specials,
                                      numTune |-> R.numTune, numDraws |-> R.numDraws])
\* a record operation must succeed (C14: "finalising or inspecting a trace succeeds" presupposes recording does)
TrRecord == IsEvent("record") /\ R.ok /\ Record(R.chain, R.tuning, R.div, R.upd)
TrFlush == IsEvent("flush") /\ R.ok /\ Flush

\* an inspect / finalize answer: every entry of the view is right, and nothing is missing
TrObserve ==
    /\ IsEvent("observe")
    /\ R.ok
    \* (IF forces TLC to evaluate the check as a value instead of splitting its disjunctions into successor states)
    /\ IF \A k \in 1..Len(R.entries) : EntryOK(R.entries[k]) THEN TRUE ELSE FALSE
    /\ R.complete
    /\ UNCHANGED stvars

\* a fresh reader of the store (C15)
TrReader ==
    /\ IsEvent("reader")
    /\ IF \A k \in 1..Len(R.entries) : ReaderOK(R.entries[k]) THEN TRUE ELSE FALSE
    /\ R.complete
    /\ UNCHANGED stvars

TNext == TrReset \/ TrRecord \/ TrFlush \/ TrObserve \/ TrReader
TSpec == TInit /\ [][TNext]_tvars
Accepted ==
    LET d == TLCGet("stats").diameter
    IN IF d - 1 = Len(Rec) THEN TRUE
       ELSE Print(<<"TRACE-REJECTED at line", d, [e |-> Rec[d].e]>>, FALSE)
=============================================================================
