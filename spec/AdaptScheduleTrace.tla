------------------------ MODULE AdaptScheduleTrace ------------------------
(***************************************************************************)
(* Trace validation of the warm-up schedule (C06, C09, C07 routing): one  *)
(* projected line per draw of a real chain (hook event of adapt() joined  *)
(* with the public per-draw output).  The spec *predicts* counts, window  *)
(* sizes, switches, updates, re-search and statistic routing from the     *)
(* constants and the good/rejected history; the log must agree.           *)
(***************************************************************************)
EXTENDS AdaptSchedule, TLC, Json, IOUtils

Rec == ndJsonDeserialize(IOEnv.TRACE)

VARIABLE l
tvars == <<svars, l>>

R == Rec[l]
IsEvent(e) == l <= Len(Rec) /\ Rec[l].e = e /\ l' = l + 1

TInit == l = 1 /\ Start([kind |-> "global", numTune |-> 0, earlyEnd |-> 0, finalWindow |-> 0,
                         earlyFreq |-> 1, mainFreq |-> 1, updFreq |-> 1, gn |-> 1, gd |-> 1])

\* A new chain: the constants are read from the implementation (accessor
\* hook), only sanity-bounded here - never recomputed with other rounding.
TrReset ==
    /\ IsEvent("reset")
    /\ R.earlyEnd >= 0 /\ R.finalWindow >= 0 /\ R.finalWindow <= R.numTune
    \* the constants the strategy works with are the configured ones (recomputed harness-side from the settings)
    /\ R.constok
    /\ LET p == [kind |-> R.kind, numTune |-> R.numTune, earlyEnd |-> R.earlyEnd,
                 finalWindow |-> R.finalWindow, earlyFreq |-> R.earlyFreq,
                 mainFreq |-> R.mainFreq, updFreq |-> R.updFreq, gn |-> R.gn, gd |-> R.gd]
       IN /\ P' = p /\ draw' = 0 /\ tuning' = TRUE
          /\ fg' = [n |-> 1, start |-> -1] /\ bg' = [n |-> 1, start |-> -1]
          /\ window' = p.mainFreq /\ lastUpdate' = 0 /\ hasInitial' = TRUE
          /\ tid' = 0 /\ switches' = <<>> /\ lastEv' = NoEv

Goods == IF R.good = "t" THEN {TRUE} ELSE IF R.good = "f" THEN {FALSE} ELSE BOOLEAN

TrAdapt ==
    /\ IsEvent("adapt")
    /\ R.draw = draw
    /\ \E good \in Goods, bump \in BOOLEAN :
          IF P.kind = "global" THEN Adapt(good, bump) ELSE AdaptExt(bump)
    \* ---- what the implementation did must be what the schedule says
    /\ lastEv'.branch = R.branch
    /\ lastEv'.fed = R.fed
    /\ tid' = R.tid
    /\ tuning' = R.tuning
    /\ P.kind = "global" =>
          /\ lastEv'.switched = R.switched
          /\ lastEv'.changed = R.changed
          /\ lastEv'.research = R.research
          /\ fg'.n = R.fg /\ bg'.n = R.bg
          /\ window' = R.win
          /\ lastUpdate' = R.lastUpdate
          /\ hasInitial' = R.hasInitial
          \* the diagonal estimator always changes the transformation when it updates
          /\ (R.diag /\ R.changed) => tid' = tid + 1
          \* C09: the reported diagonal scales are those of exactly the fg.n most recent accepted draws
          \* (harness-side recomputation with the estimator's recursion, 1e-9)
          /\ R.mmok
    \* ---- public output (C06)
    /\ R.ptuning = (draw < P.numTune)          \* Progress.tuning
    /\ R.stuning = (draw < P.numTune)          \* stats "tuning"
    \* ---- statistic routing (C07/C09): the estimator was advanced exactly once
    \* with the statistic the schedule names, and with this draw's value
    /\ R.fedcalls = (IF R.fed = "none" THEN "" ELSE R.fed)
    /\ R.fedvalok
    \* ---- frozen kernel after warm-up (C06): averaged step size constant,
    \* step size inside the jitter band around it (harness-side predicates)
    /\ draw >= P.numTune => (R.barsame /\ R.inband)
    /\ (draw = P.numTune - 1) => R.inband
    \* every step size positive, finite and bounded (C07 boundedness)
    /\ R.stepok
    \* C07: the base step size installed after this draw is the documented dual-averaging / Adam update of the
    \* acceptance statistics of the draws so far (early windows: mean_tree_accept, later: the symmetric one),
    \* replayed harness-side from the draws' own statistics, 1e-9
    /\ R.daok
    /\ R.barok
    \* C07: the acceptance statistics themselves are the documented functions of the energy errors of the
    \* trajectory's leapfrogs (harness-side recomputation from the leapfrog hook events, 1e-12)
    /\ R.accok

TNext == TrReset \/ TrAdapt
TSpec == TInit /\ [][TNext]_tvars

Accepted ==
    LET d == TLCGet("stats").diameter
    IN IF d - 1 = Len(Rec) THEN TRUE
       ELSE Print(<<"TRACE-REJECTED at line", d, Rec[d]>>, FALSE)
============================================================================
