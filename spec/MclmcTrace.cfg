SPECIFICATION TSpec
INVARIANT KernelInv
POSTCONDITION Accepted
CHECK_DEADLOCK FALSE
