------------------------- MODULE MC_AdaptSchedule -------------------------
(* All good/rejected histories and all update outcomes for a family of     *)
(* schedule constants (scaled-down windows).                               *)
EXTENDS AdaptSchedule, TLC

CONSTANTS MaxTune, ExtraDraws

Params ==
    {[kind |-> k, numTune |-> nt, earlyEnd |-> ee, finalWindow |-> fw, earlyFreq |-> ef, mainFreq |-> mf,
      updFreq |-> uf, gn |-> g[1], gd |-> g[2]] :
        k \in {"global", "external"}, nt \in 0..MaxTune, ee \in 0..MaxTune, fw \in 0..MaxTune,
        ef \in {1, 2, 3}, mf \in {2, 4}, uf \in {1, 3}, g \in {<<1, 1>>, <<3, 2>>, <<2, 1>>}}

\* what GlobalStrategy::new can produce: early_end < num_tune (or both 0 after the fix),
\* final window start between 0 and num_tune
ValidParams == {p \in Params : /\ (p.earlyEnd < p.numTune \/ (p.numTune = 0 /\ p.earlyEnd = 0))
                               /\ p.finalWindow <= p.numTune}

MCInit == \E p \in ValidParams : Start(p)
MCNext == /\ draw < P.numTune + ExtraDraws
          /\ \E good \in BOOLEAN, bump \in BOOLEAN : Adapt(good, bump) \/ AdaptExt(bump)
MCSpec == MCInit /\ [][MCNext]_svars

\* vacuity guards: these must be violated
NoSwitch == ~lastEv.switched
NoLateFeedInMass == ~(lastEv.branch = "mass" /\ lastEv.fed = "late")
NoResearch == ~lastEv.research
NoGrowth == window <= P.mainFreq
============================================================================
