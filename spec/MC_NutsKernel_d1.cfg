CONSTANTS
  MaxDepth = 1
  Weights = {1, 2}
  Family = "all"
  ApexMax = 0
SPECIFICATION Spec
INVARIANTS InvDetailedBalance InvStochastic InvMirror
CHECK_DEADLOCK FALSE
