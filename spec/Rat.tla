------------------------------- MODULE Rat -------------------------------
(* Exact non-negative rationals as reduced pairs <<n, d>>, d > 0.          *)
(* TLC integers are 32 bit and overflow is a run-time error (not a wrap), *)
(* so a run that finishes has computed exactly.                           *)
EXTENDS Integers

RECURSIVE Gcd(_, _)
Gcd(a, b) == IF b = 0 THEN a ELSE Gcd(b, a % b)

RNorm(n, d) == IF n = 0 THEN <<0, 1>>
               ELSE LET g == Gcd(n, d) IN <<n \div g, d \div g>>
RZero == <<0, 1>>
ROne  == <<1, 1>>
RHalf == <<1, 2>>
RInt(k) == <<k, 1>>
RAdd(a, b) == RNorm(a[1] * b[2] + b[1] * a[2], a[2] * b[2])
RSub(a, b) == RNorm(a[1] * b[2] - b[1] * a[2], a[2] * b[2])   \* caller ensures a >= b
RMul(a, b) == LET g1 == Gcd(a[1], b[2])
                  g2 == Gcd(b[1], a[2])
                  h1 == IF g1 = 0 THEN 1 ELSE g1
                  h2 == IF g2 = 0 THEN 1 ELSE g2
              IN RNorm((a[1] \div h1) * (b[1] \div h2), (a[2] \div h2) * (b[2] \div h1))
RDiv(a, b) == RMul(a, <<b[2], b[1]>>)                          \* caller ensures b > 0
RLe(a, b)  == a[1] * b[2] <= b[1] * a[2]
RMin(a, b) == IF RLe(a, b) THEN a ELSE b
==========================================================================
