------------------------------ MODULE Momentum ------------------------------
(***************************************************************************)
(* C04, last sentence: "The momentum drawn at the start of each trajectory *)
(* is standard normal in the whitened space and independent of earlier     *)
(* draws" - as a statement about where the momentum comes from.            *)
(*                                                                         *)
(* The chain owns one random stream, a sequence of words.  A momentum of   *)
(* dimension d is the standard-normal transform of a contiguous interval   *)
(* [from, to) of that stream (at least one 64-bit draw = two words per     *)
(* coordinate), taken with scale one in the whitened space.  "Independent  *)
(* of earlier draws" is freshness: the interval starts at or after the end *)
(* of every interval used by an earlier momentum - no word is used twice.  *)
(* "At the start of each trajectory": inside an API call nothing moves     *)
(* (no leapfrog) before a momentum has been drawn in that call, and again  *)
(* after every start of a step-size search.                                *)
(***************************************************************************)
EXTENDS Integers, Sequences, FiniteSets

VARIABLES pos,      \* end of the last interval used by a momentum
          armed,    \* a momentum was drawn since the last call / search boundary
          used,     \* history: the intervals, in order
          calls     \* number of finished API calls

movars == <<pos, armed, used, calls>>

MoInit == pos = 0 /\ armed = FALSE /\ used = <<>> /\ calls = 0

\* a resampled momentum located at [from, to) of the stream
Draw(from, to, dim) ==
    /\ from >= pos                       \* fresh
    /\ to - from >= 2 * dim              \* one 64-bit word pair per coordinate at least
    /\ pos' = to
    /\ armed' = TRUE
    /\ used' = Append(used, <<from, to>>)
    /\ UNCHANGED calls

\* a zero-dimensional model has nothing to draw
DrawNothing ==
    /\ armed' = TRUE
    /\ UNCHANGED <<pos, used, calls>>

Leapfrog ==
    /\ armed
    /\ UNCHANGED movars

SearchBoundary ==
    /\ armed' = FALSE
    /\ UNCHANGED <<pos, used, calls>>

EndCall ==
    /\ armed' = FALSE
    /\ calls' = calls + 1
    /\ UNCHANGED <<pos, used>>

\* ------------------------------ properties -------------------------------
\* no word of the stream is used by two momenta
NoReuse == \A i, j \in 1..Len(used) : i < j => used[i][2] <= used[j][1]
Ordered == \A i \in 1..Len(used) : used[i][1] <= used[i][2] /\ used[i][2] <= pos
MomentumInv == NoReuse /\ Ordered
=============================================================================
