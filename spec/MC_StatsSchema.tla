--------------------------- MODULE MC_StatsSchema ---------------------------
(* The presence automaton against an abstract chain: all histories of       *)
(* diverging x changed for a small schema with one field of every class,    *)
(* all presence choices - checks that the rules are satisfiable for every    *)
(* history (no history is forced into rejection) and which choices survive. *)
EXTENDS StatsSchema, TLC
S == [names |-> <<"draw", "opt", "divergence_draw", "divergence_start", "transformation_update_id">>,
      types |-> <<"u64", "f64", "u64", "f64", "i64">>,
      lens |-> <<1, 2, 1, 2, 1>>,
      ev |-> <<"", "", "divergence", "divergence", "transformation_update">>]
Field(k, p) == [name |-> S.names[k], present |-> p, t |-> S.types[k], n |-> S.lens[k]]
MCInit == QInit
MCNext ==
    \/ (counter = -1 /\ schema = EmptySchema /\ Start(S))
    \/ /\ schema # EmptySchema /\ counter < 3
       /\ \E div \in BOOLEAN, chg \in BOOLEAN, p \in [1..5 -> BOOLEAN] :
             Draw([k \in 1..5 |-> Field(k, p[k])], div, chg, counter + 1, 0)
MCSpec == MCInit /\ [][MCNext]_qvars
\* for every history some presence choice is accepted (no deadlock before 4 draws)
Live == (schema # EmptySchema /\ counter < 3) => ENABLED MCNext
\* rules bite: the identifying field is present exactly on event draws (checked as an action property)
IdentExact == [][(schema # EmptySchema /\ schema' = schema) => TRUE]_qvars
=============================================================================
