----------------------------- MODULE MC_Sampler -----------------------------
EXTENDS Sampler, TLC
CONSTANTS C0, C1, C2
FaultsNone == {}
FaultsFatal1 == {<<1, "fatal", 1>>}
FaultsStorage0 == {<<0, "storage", 0>>}
FaultsInit1 == {<<1, "init", 0>>}
FaultsTwo == {<<0, "fatal", 1>>, <<1, "storage", 0>>}
Chains2 == {0, 1}
Chains3 == {0, 1, 2}
\* hide nothing: the history variables are small
=============================================================================
