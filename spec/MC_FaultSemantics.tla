------------------------- MODULE MC_FaultSemantics -------------------------
(* Design check of the C05 rule set: total and consistent for all fault    *)
(* sets of size <= 2, and every rule-conforming call sequence is reachable. *)
EXTENDS FaultSemantics, TLC
MCNext ==
    \/ \E res \in {"ok", "err"}, F \in {G \in FaultPairs : Only(G, {"init", "search_step"})} :
          SetPosition(res, F)
    \/ \E res \in {"ok", "err"}, div \in BOOLEAN, fin \in BOOLEAN,
          F \in {G \in FaultPairs : Only(G, {"traj", "research_init", "research_step"})} :
          Draw(res, div, fin, F)
MCSpec == FInit /\ [][MCNext]_fvars
RulesConsistent == Total /\ FatalForcesErr
=============================================================================
