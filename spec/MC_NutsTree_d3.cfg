CONSTANTS
  Weights = {1, 2}
  Configs <- ConfigsDefault3
  AllowDiv = TRUE
  AllowErr = FALSE
  Emit = TRUE
SPECIFICATION MCSpec
INVARIANTS StructOK DoneOK StepsOK MindepthOK EmitReplay
CHECK_DEADLOCK FALSE
