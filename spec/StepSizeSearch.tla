--------------------------- MODULE StepSizeSearch ---------------------------
(***************************************************************************)
(* C07 (search clause): the doubling / halving search for an initial step  *)
(* size, as StepSizeStrategy::init runs it.                                *)
(*                                                                         *)
(* Abstract state: the step size is initial * 2^k, so only the exponent k  *)
(* is kept.  One action per leapfrog probe.  What the probe returned is an *)
(* argument of the action:                                                 *)
(*    res   "ok" / "div" (non-fatal failure of the trial) / "err" (fatal)  *)
(*    side  how the one-step acceptance compares with the target:          *)
(*          "above" (acc > target), "equal", "below"                       *)
(*    ext   the numeric guard of the loop fired (step > 1e5 going up,      *)
(*          step < 1e-10 going down)                                       *)
(* The search goes in the direction decided by the first probe, moves the  *)
(* exponent by one per probe, and stops at the first probe whose           *)
(* acceptance is on the other side of the target (or equal to it): the     *)
(* step size *of that probe* is installed and the estimator is re-created  *)
(* from it.  Every other way out installs the configured initial step      *)
(* size (k = 0) and leaves the estimator alone.                            *)
(***************************************************************************)
EXTENDS Integers, Sequences

CONSTANT MaxTries      \* 100 in the implementation

VARIABLES phase,    \* "idle" / "first" / "loop" / "done"
          dir,      \* "F" (doubling) / "B" (halving) / "none"
          k,        \* exponent of the step size the next probe will use
          n,        \* probes made inside the loop
          outcome,  \* "none" / "found" / "fallback" / "first_failed" / "exhausted" / "error" / "fixed"
          finalK,   \* exponent of the step size installed at the end
          estK,     \* exponent the estimator was (re-)created from; NoEst = untouched
          hist      \* sequence of [k, side, ext] of the loop probes that returned ok

ssvars == <<phase, dir, k, n, outcome, finalK, estK, hist>>

NoEst == -100000
Sides == {"above", "equal", "below"}
Results == {"ok", "div", "err"}

SSInit ==
    /\ phase = "idle" /\ dir = "none" /\ k = 0 /\ n = 0
    /\ outcome = "none" /\ finalK = 0 /\ estK = NoEst /\ hist = <<>>

\* a new search (also used when the search is re-run after a transformation change)
Begin ==
    /\ phase' = "first" /\ dir' = "none" /\ k' = 0 /\ n' = 0
    /\ outcome' = "none" /\ finalK' = 0 /\ estK' = NoEst /\ hist' = <<>>

\* step-size adaptation switched off: the configured value is installed, nothing is probed
Fixed ==
    /\ phase' = "done" /\ outcome' = "fixed" /\ finalK' = 0 /\ estK' = NoEst
    /\ dir' = "none" /\ k' = 0 /\ n' = 0 /\ hist' = <<>>

Finish(o, fk, ek) ==
    /\ phase' = "done" /\ outcome' = o /\ finalK' = fk /\ estK' = ek

First(res, side) ==
    /\ phase = "first"
    /\ IF res = "err" THEN Finish("error", 0, NoEst) /\ UNCHANGED <<dir, k, n, hist>>
       ELSE IF res = "div" THEN Finish("first_failed", 0, NoEst) /\ UNCHANGED <<dir, k, n, hist>>
       ELSE /\ phase' = "loop"
            /\ dir' = IF side = "above" THEN "F" ELSE "B"
            /\ UNCHANGED <<k, n, outcome, finalK, estK, hist>>

\* has the probe reached the other side of the target?
Crossed(d, side) == IF d = "F" THEN side # "above" ELSE side # "below"

Try(res, side, ext) ==
    /\ phase = "loop" /\ n < MaxTries
    /\ n' = n + 1
    /\ IF res = "err" THEN Finish("error", 0, NoEst) /\ UNCHANGED <<dir, k, hist>>
       ELSE IF res = "div" THEN Finish("fallback", 0, NoEst) /\ UNCHANGED <<dir, k, hist>>
       ELSE /\ hist' = Append(hist, [k |-> k, side |-> side, ext |-> ext])
            /\ IF Crossed(dir, side) \/ ext
               THEN Finish("found", k, k) /\ UNCHANGED <<dir, k>>
               ELSE /\ k' = IF dir = "F" THEN k + 1 ELSE k - 1
                    /\ UNCHANGED <<phase, dir, outcome, finalK, estK>>

Exhaust ==
    /\ phase = "loop" /\ n = MaxTries
    /\ Finish("exhausted", 0, NoEst)
    /\ UNCHANGED <<dir, k, n, hist>>

SSNext ==
    \/ (phase \in {"idle", "done"} /\ (Begin \/ Fixed))
    \/ \E res \in Results, side \in Sides : First(res, side)
    \/ \E res \in Results, side \in Sides, ext \in BOOLEAN : Try(res, side, ext)
    \/ Exhaust

SSSpec == SSInit /\ [][SSNext]_ssvars

\* ------------------------------ properties -------------------------------
\* The search ends with a step whose one-step acceptance brackets the target: the installed
\* step is the last probed one, its acceptance is on the far side (or the numeric guard fired),
\* every earlier probe was on the near side, and consecutive probes differ by a factor two.
Bracket ==
    outcome = "found" =>
        /\ hist # <<>>
        /\ finalK = hist[Len(hist)].k
        /\ estK = finalK
        /\ Crossed(dir, hist[Len(hist)].side) \/ hist[Len(hist)].ext
        /\ \A i \in 1..(Len(hist) - 1) : ~Crossed(dir, hist[i].side) /\ ~hist[i].ext
        /\ \A i \in 1..Len(hist) : hist[i].k = (IF dir = "F" THEN i - 1 ELSE 1 - i)
\* any other way out leaves the configured initial step size and the estimator untouched
FallbackIsInitial ==
    (phase = "done" /\ outcome # "found") => (finalK = 0 /\ estK = NoEst)
\* the search is bounded
Bounded == n <= MaxTries /\ Len(hist) <= MaxTries /\ k <= MaxTries /\ k >= -MaxTries
SearchInv == Bracket /\ FallbackIsInitial /\ Bounded
\* vacuity guards (must be violated)
NoFound == outcome # "found"
NoExhaust == outcome # "exhausted"
NoFallback == outcome # "fallback"
=============================================================================
