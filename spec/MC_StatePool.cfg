CONSTANTS
  NHandles = 3
  Values = {1, 2}
  MaxCells = 3
  DropRule = "last"
  Steps = 0
SPECIFICATION MCSpec
INVARIANT PoolInv
PROPERTIES Stable FreshExclusive MutIffSole Economy
CHECK_DEADLOCK FALSE
