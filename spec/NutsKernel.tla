---------------------------- MODULE NutsKernel ----------------------------
(***************************************************************************)
(* Denotational model of one NUTS transition of nuts-rs (src/nuts.rs,     *)
(* default tree options: mindepth = 0, extra_doublings = 0,               *)
(* check_turning = TRUE) over a fixed, fully known orbit.                 *)
(*                                                                         *)
(* An orbit is the bi-infinite leapfrog trajectory through the current    *)
(* phase-space point, restricted to the absolute index window Lo..Hi:     *)
(*   w[i]          weight of point i, proportional to exp(-H(z_i))        *)
(*   turn[<<i,j>>] answer of the U-turn criterion for the pair i < j      *)
(*                 (the code orders the two states by index, so it is a   *)
(*                 function of the unordered pair)                        *)
(* No divergences: the property (C01) is stated for energy spreads below  *)
(* the divergence limit.                                                  *)
(*                                                                         *)
(* The operators mirror the code:                                         *)
(*   Sub(s, dir, k)   NutsTree::extend on a non-main tree, recursively:   *)
(*                    builds the 2^k states adjacent to s in direction    *)
(*                    dir; uniform progressive sampling (merge_into with  *)
(*                    is_main = FALSE); turning if any balanced sub-tree  *)
(*                    satisfies one of the three checks.                  *)
(*   Main(t, dirs, j) the while loop of nuts::draw.                       *)
(*   K(a, b)          transition probability from a to b.                 *)
(***************************************************************************)
EXTENDS Integers, Sequences, FiniteSets, Rat

CONSTANTS MaxDepth

Span == 2 ^ MaxDepth - 1          \* farthest index reachable from the start
Lo == -2 * Span
Hi == 2 * Span
Idx == Lo..Hi
Pairs == {p \in Idx \X Idx : p[1] < p[2]}

\* The three U-turn checks of extend for a merged tree [a..b] whose halves
\* are [a..m] and [m+1..b]; d is the depth of each half.
TurnChecks(orbit, a, m, b, d) ==
    \/ orbit.turn[<<a, b>>]
    \/ d > 0 /\ (orbit.turn[<<m, b>>] \/ orbit.turn[<<a, m + 1>>])

\* A sub-tree result: [ok |-> BOOLEAN, lo, hi, w (integer total weight),
\*                     dist (function from index to probability, given ok)]
\* Leaf.
Leaf(orbit, i) == [ok |-> TRUE, lo |-> i, hi |-> i, w |-> orbit.w[i],
                   dist |-> [x \in {i} |-> ROne]]

\* Uniform progressive merge (is_main = FALSE): the other half's draw is
\* taken with probability w_other / (w_self + w_other).
MergeUniform(s, o) ==
    LET tot == s.w + o.w
        ps == <<s.w, tot>>
        po == <<o.w, tot>>
        dom == (s.lo..s.hi) \cup (o.lo..o.hi)
    IN [x \in dom |-> IF x \in s.lo..s.hi THEN RMul(RNorm(ps[1], ps[2]), s.dist[x])
                                           ELSE RMul(RNorm(po[1], po[2]), o.dist[x])]

\* Build the sub-tree of depth k whose first state is `first`, growing in dir
\* (+1 / -1).  Mirrors: single_step, then `while other.depth < self.depth
\* { other = other.extend(..) }`, turning checks, merge_into.
RECURSIVE Sub(_, _, _, _)
Sub(orbit, first, dir, k) ==
    IF k = 0 THEN Leaf(orbit, first)
    ELSE LET s == Sub(orbit, first, dir, k - 1)
         IN IF ~s.ok THEN s
            ELSE LET nxt == IF dir = 1 THEN s.hi + 1 ELSE s.lo - 1
                     o == Sub(orbit, nxt, dir, k - 1)
                 IN IF ~o.ok THEN [s EXCEPT !.ok = FALSE]
                    ELSE LET a == IF dir = 1 THEN s.lo ELSE o.lo
                             b == IF dir = 1 THEN o.hi ELSE s.hi
                             m == IF dir = 1 THEN s.hi ELSE o.hi
                         IN [ok |-> ~TurnChecks(orbit, a, m, b, k - 1),
                             lo |-> a, hi |-> b, w |-> s.w + o.w,
                             dist |-> MergeUniform(s, o)]

\* Note on Sub: in the code a sub-tree of depth k is built by extending the
\* leaf k times, each time doubling (other is built to the same depth).  The
\* recursion above builds the first half (depth k-1, same first state) and
\* then the second half adjacent to it, which is the same tree.

\* Main-tree state: [lo, hi, w, dist, depth]; result of the whole transition
\* is a distribution over indices.
MainInit(orbit, a) == [lo |-> a, hi |-> a, w |-> orbit.w[a], depth |-> 0,
                       dist |-> [x \in {a} |-> ROne]]

\* Biased progressive merge (is_main = TRUE): accept the other half's draw
\* with probability min(1, w_other / w_self).
MergeBiased(t, o) ==
    LET p == IF o.w >= t.w THEN ROne ELSE RNorm(o.w, t.w)
        q == RSub(ROne, p)
        dom == (t.lo..t.hi) \cup (o.lo..o.hi)
    IN [x \in dom |-> IF x \in t.lo..t.hi THEN RMul(q, t.dist[x])
                                           ELSE RMul(p, o.dist[x])]

\* One iteration of the while loop with direction dir.  Returns
\* [stop |-> BOOLEAN, t |-> tree].
Step(orbit, t, dir) ==
    LET nxt == IF dir = 1 THEN t.hi + 1 ELSE t.lo - 1
        o == Sub(orbit, nxt, dir, t.depth)
    IN IF ~o.ok THEN [stop |-> TRUE, t |-> t]       \* sub-tree rejected
       ELSE LET a == IF dir = 1 THEN t.lo ELSE o.lo
                b == IF dir = 1 THEN o.hi ELSE t.hi
                m == IF dir = 1 THEN t.hi ELSE o.hi
                merged == [lo |-> a, hi |-> b, w |-> t.w + o.w,
                           depth |-> t.depth + 1, dist |-> MergeBiased(t, o)]
            IN [stop |-> TurnChecks(orbit, a, m, b, t.depth), t |-> merged]

\* Run the loop with the direction sequence dirs (a function 1..MaxDepth ->
\* {1,-1}); returns the final tree (with field stopdepth).
RECURSIVE Run(_, _, _, _)
Run(orbit, t, dirs, j) ==
    IF t.depth >= MaxDepth \/ j > MaxDepth THEN t
    ELSE LET r == Step(orbit, t, dirs[j])
         IN IF r.stop THEN r.t ELSE Run(orbit, r.t, dirs, j + 1)

DirSeqs == [1..MaxDepth -> {1, -1}]

Final(orbit, a, dirs) == Run(orbit, MainInit(orbit, a), dirs, 1)

RECURSIVE SumOver(_, _, _, _)
SumOver(orbit, a, b, S) ==
    IF S = {} THEN RZero
    ELSE LET dirs == CHOOSE x \in S : TRUE
             f == Final(orbit, a, dirs)
             term == IF b \in DOMAIN f.dist THEN f.dist[b] ELSE RZero
         IN RAdd(term, SumOver(orbit, a, b, S \ {dirs}))

\* Each direction sequence has probability 2^-MaxDepth (directions that are
\* never drawn because the loop stopped earlier are marginalised).
K(orbit, a, b) == RMul(RNorm(1, 2 ^ MaxDepth), SumOver(orbit, a, b, DirSeqs))

\* ----------------------------- properties ------------------------------
Starts == -Span..Span

DetailedBalanceAt(orbit, a, b) ==
    LET kab == K(orbit, a, b)
        kba == K(orbit, b, a)
    IN orbit.w[a] * kab[1] * kba[2] = orbit.w[b] * kba[1] * kab[2]

\* Start point 0 against every b it can reach covers, by translation of the
\* orbit family, every pair.
DetailedBalance(orbit) == \A b \in Starts : DetailedBalanceAt(orbit, 0, b)

\* Rows are probability distributions.
RECURSIVE RowSum(_, _, _)
RowSum(orbit, a, S) == IF S = {} THEN RZero
                       ELSE LET b == CHOOSE x \in S : TRUE
                            IN RAdd(K(orbit, a, b), RowSum(orbit, a, S \ {b}))
Stochastic(orbit) == RowSum(orbit, 0, Starts) = ROne

\* Mirrored doubling choices: the direction choices that build the final
\* trajectory f from the point b inside it are determined by b's position
\* in the balanced binary tree over f.lo..f.hi; directions drawn after the
\* tree was built (the one whose extension was rejected) are kept.
SameTraj(f, g) == f.lo = g.lo /\ f.hi = g.hi /\ f.depth = g.depth
MirrorDirs(f, b, dirs) ==
    [j \in 1..MaxDepth |->
        IF j <= f.depth
        THEN IF ((b - f.lo) \div (2 ^ (j - 1))) % 2 = 0 THEN 1 ELSE -1
        ELSE dirs[j]]
MirrorTrajectory(orbit) ==
    \A dirs \in DirSeqs :
        LET f == Final(orbit, 0, dirs)
        IN /\ \A j \in 1..f.depth : MirrorDirs(f, 0, dirs)[j] = dirs[j]
           /\ \A b \in f.lo..f.hi :
                 SameTraj(Final(orbit, b, MirrorDirs(f, b, dirs)), f)
===========================================================================
