-------------------------- MODULE MassMatrixUpdate --------------------------
(***************************************************************************)
(* C08: what a mass-matrix update may do to the scales of the              *)
(* transformation in use, as a decision table over value classes, and the  *)
(* history rule "an invalid estimate leaves the previous value in place".  *)
(*                                                                         *)
(* Per coordinate a window of draws / gradients is summarised by the class *)
(* of its variance:                                                        *)
(*    "ok"    ordinary positive            "const"  exactly zero           *)
(*    "tiny"  positive, about 1e-60        "huge"   finite, about 1e60     *)
(*    "ovf"   the sum of squares overflows to +inf                         *)
(*    "nan"   a NaN entry                  "inf"    an infinite entry      *)
(* The scale of a coordinate is a token saying where its current value     *)
(* came from: [src, kind] with kind "value" (the estimate itself), "lo" /  *)
(* "hi" (estimate clamped to the lower / upper limit) or "fill" (the       *)
(* documented fill value of the initialisation), and src the step that     *)
(* wrote it (0 = initialisation, r = r-th window).  Every token denotes a  *)
(* finite, strictly positive number - that is the "never degenerates"      *)
(* clause; the harness checks that the real scales are the numbers the     *)
(* tokens denote.                                                          *)
(***************************************************************************)
EXTENDS Integers, Sequences, FiniteSets, TLC, Json

CONSTANTS Dim,          \* number of coordinates
          Rounds,       \* number of windows
          Counts,       \* window sizes (number of draws fed before adapt)
          Cls0,         \* variance classes tried on coordinate 1 (draws x gradients)
          RestPairs,    \* <<draw class, gradient class>> pairs tried on the other coordinates
          InitCls0,     \* gradient classes at the start point, coordinate 1
          InitClsRest,  \* ... other coordinates
          Rules         \* subset of {"draw_grad", "draw", "lowrank"}

VarCls == {"ok", "const", "tiny", "huge", "ovf", "nan", "inf"}
GradInitCls == {"ok", "zero", "tiny", "huge", "inf", "nan"}

\* abstract value of a variance: "Z" zero, "P" positive finite with decimal exponent, "I" +inf, "B" NaN or inf
Val(c) == CASE c = "ok" -> [k |-> "P", e |-> 0]
            [] c = "tiny" -> [k |-> "P", e |-> -60]
            [] c = "huge" -> [k |-> "P", e |-> 60]
            [] c = "const" -> [k |-> "Z", e |-> 0]
            [] c = "ovf" -> [k |-> "I", e |-> 0]
            [] OTHER -> [k |-> "B", e |-> 0]

Clamp(e, lo, hi) == IF e < lo THEN "lo" ELSE IF e > hi THEN "hi" ELSE "value"

\* sigma^2 = sqrt(var(draw) / var(grad)), clamped to [1e-20, 1e20]; 0, inf and NaN are invalid
OutcomeDrawGrad(dc, gc) ==
    LET d == Val(dc)
        g == Val(gc)
    IN IF d.k = "P" /\ g.k = "P" THEN Clamp((d.e - g.e) \div 2, -20, 20) ELSE "keep"
\* sigma^2 = var(draw), clamped to [1e-20, 1e20]
OutcomeDraw(dc) ==
    LET d == Val(dc) IN IF d.k = "P" THEN Clamp(d.e, -20, 20) ELSE "keep"
\* initial scale from the gradient at the start point: sigma^2 = 1 / clamp(|g|, 1e-20, 1e20), NaN -> 1
OutcomeInit(gc) ==
    CASE gc = "ok" -> "value" [] gc \in {"zero", "tiny"} -> "hi" [] gc \in {"huge", "inf"} -> "lo" [] OTHER -> "fill"

VARIABLES rule, scale, round, hist, changedFlag

mmvars == <<rule, scale, round, hist, changedFlag>>

MMInit ==
    /\ rule \in Rules
    /\ scale = <<>> /\ round = -1 /\ hist = <<>> /\ changedFlag = FALSE

ClsVec(S0, SR) == {v \in [1..Dim -> S0 \cup SR] : v[1] \in S0 /\ \A i \in 2..Dim : v[i] \in SR}

\* initialisation from the gradient at the start point
Start(gcls) ==
    /\ round = -1
    /\ scale' = [i \in 1..Dim |-> [src |-> 0, kind |-> OutcomeInit(gcls[i])]]
    /\ round' = 0
    /\ hist' = <<[op |-> "init", g |-> gcls, want |-> scale']>>
    /\ changedFlag' = TRUE
    /\ UNCHANGED rule

\* one window of n draws, then adapt()
Window(n, dcls, gcls) ==
    /\ round >= 0 /\ round < Rounds
    /\ round' = round + 1
    /\ LET out == [i \in 1..Dim |->
                     IF rule = "draw" THEN OutcomeDraw(dcls[i]) ELSE OutcomeDrawGrad(dcls[i], gcls[i])]
           allValid == \A i \in 1..Dim : out[i] # "keep"
       IN /\ scale' =
               IF n < 3 THEN scale                                  \* too few draws: adapt() does nothing
               ELSE IF rule = "lowrank"
                    THEN IF allValid THEN [i \in 1..Dim |-> [src |-> round', kind |-> "value"]]
                         ELSE scale                                 \* all or nothing
                    ELSE [i \in 1..Dim |-> IF out[i] = "keep" THEN scale[i]
                                           ELSE [src |-> round', kind |-> out[i]]]
          /\ changedFlag' = (n >= 3)
          /\ hist' = Append(hist, [op |-> "window", n |-> n, d |-> dcls, g |-> gcls, want |-> scale',
                                   \* low-rank: a numerically failed decomposition may also keep everything
                                   mayKeepAll |-> (rule = "lowrank")])
    /\ UNCHANGED rule

MMNext ==
    \/ \E g \in ClsVec(InitCls0, InitClsRest) : Start(g)
    \/ \E n \in Counts, d1 \in Cls0, g1 \in Cls0, rest \in [2..Dim -> RestPairs] :
          Window(n, [i \in 1..Dim |-> IF i = 1 THEN d1 ELSE rest[i][1]],
                    [i \in 1..Dim |-> IF i = 1 THEN g1 ELSE rest[i][2]])

MMSpec == MMInit /\ [][MMNext]_mmvars

\* ------------------------------ properties -------------------------------
Kinds == {"value", "lo", "hi", "fill"}
\* every scale in use denotes a finite, strictly positive number
NeverDegenerate == \A i \in DOMAIN scale : scale[i].kind \in Kinds
\* a scale is only ever replaced by an estimate of the window that just ended
OnlyFromThisWindow ==
    \A i \in DOMAIN scale : scale[i].src <= round /\ (scale[i].src = round \/ scale[i].src < round)
\* invalid estimate => previous value in place (checked on the last step of the history)
KeepsPrevious ==
    Len(hist) >= 2 =>
        LET h == hist[Len(hist)]
            p == hist[Len(hist) - 1]
        IN h.op = "window" =>
             \A i \in 1..Dim :
                 (h.want[i].src # round) => h.want[i] = p.want[i]
MMInv == NeverDegenerate /\ OnlyFromThisWindow /\ KeepsPrevious

Emit == (round = Rounds) => PrintT(<<"REPLAY", ToJson([rule |-> rule, hist |-> hist])>>)
=============================================================================
