----------------------------- MODULE MC_Lattice -----------------------------
(* Enumerates lattice cases, checks the C02 identities on each in exact      *)
(* rational arithmetic, and prints the expected result of the whitened        *)
(* leapfrog step for replay into the real Hamiltonian (`vh replay-lattice`).  *)
EXTENDS Lattice, TLC, Json, FiniteSets
CONSTANTS Family, Emit, WithEnergy
VARIABLE case

Z == <<0, 1>>
One == <<1, 1>>
Dy(n, k) == Q(n, 2 ^ k)             \* n / 2^k
UnitVec(d, k) == [i \in 1..d |-> IF i = k THEN One ELSE Z]
Had4 == << <<Dy(1,1), Dy(1,1), Dy(1,1), Dy(1,1)>>, <<Dy(1,1), Dy(-1,1), Dy(1,1), Dy(-1,1)>>,
           <<Dy(1,1), Dy(1,1), Dy(-1,1), Dy(-1,1)>>, <<Dy(1,1), Dy(-1,1), Dy(-1,1), Dy(1,1)>> >>
DiagP(d, f(_)) == [i \in 1..d |-> [j \in 1..d |-> IF i = j THEN f(i) ELSE Z]]

Scales == {Dy(1, 1), One, QI(2)}
Eps == {One, Dy(1, 1), Dy(-1, 1), QI(-1)}
Grid == {QI(-2), QI(-1), Z, Dy(1, 1), Dy(3, 1)}
Precs == {Dy(1, 1), One, QI(2)}

NoLR == [U |-> <<>>, s |-> <<>>]
T1(sig, mean) == [sigma |-> <<sig>>, mean |-> <<mean>>, U |-> <<>>, s |-> <<>>, mu |-> <<Z>>]

\* d = 1: every combination
Cases1 == {[T |-> T1(sig, mean), P |-> << <<p>> >>, m |-> <<m>>, y |-> <<y>>, v |-> <<v>>, eps |-> e] :
              sig \in Scales, mean \in {Z, QI(1)}, p \in Precs, m \in {Z, Dy(-1, 1)}, y \in Grid, v \in Grid, e \in Eps}

\* d = 2: correlated precision, rank 0 and rank 1 (coordinate eigenvector)
P2 == { << <<a, c>>, <<c, b>> >> : a \in {One, QI(2)}, b \in {One, Dy(1, 1)}, c \in {Z, Dy(1, 1)} }
LR2 == {NoLR, [U |-> <<UnitVec(2, 1)>>, s |-> <<QI(2)>>], [U |-> <<UnitVec(2, 2)>>, s |-> <<Dy(1, 1)>>],
        [U |-> <<UnitVec(2, 1), UnitVec(2, 2)>>, s |-> <<QI(2), Dy(1, 1)>>]}
Cases2 == {[T |-> [sigma |-> <<s1, s2>>, mean |-> <<QI(1), Dy(-1, 1)>>, U |-> lr.U, s |-> lr.s, mu |-> <<mu1, Z>>],
            P |-> p, m |-> <<Z, QI(1)>>, y |-> <<y1, y2>>, v |-> <<v1, v2>>, eps |-> e] :
              s1 \in {Dy(1, 1), QI(2)}, s2 \in {One, Dy(1, 1)}, lr \in LR2, mu1 \in {Z, Dy(1, 1)}, p \in P2,
              y1 \in {QI(-1), Dy(1, 1)}, y2 \in {Z, QI(2)}, v1 \in {QI(-1), QI(1)}, v2 \in {Z, Dy(1, 1)},
              e \in {Dy(1, 1), Dy(-1, 1), One}}

\* d = 4: Hadamard eigenvectors, all ranks 0..4
LR4(r) == [U |-> SubSeq(Had4, 1, r), s |-> SubSeq(<<QI(2), Dy(1, 1), QI(2), Dy(1, 1)>>, 1, r)]
Cases4 == {[T |-> [sigma |-> <<One, QI(2), One, QI(2)>>, mean |-> <<Z, QI(1), QI(-1), Dy(1, 1)>>,
                   U |-> LR4(r).U, s |-> LR4(r).s, mu |-> [i \in 1..4 |-> IF i = k THEN Dy(1, 1) ELSE Z]],
            P |-> DiagP(4, LAMBDA i : IF Mod(i, 2) = 0 THEN One ELSE QI(2)), m |-> <<QI(-3), QI(5), QI(-3), QI(5)>>,
            y |-> [i \in 1..4 |-> IF i = k THEN QI(2) ELSE IF i = k2 THEN QI(-1) ELSE Z],
            v |-> [i \in 1..4 |-> IF i = k2 THEN QI(1) ELSE Dy(1, 1)], eps |-> e] :
              r \in 0..4, k \in 1..4, k2 \in 1..4, e \in {One, QI(-1)}}

\* larger dimensions (SIMD main loop / tail splits, rank-dependent scratch): sparse patterns
CasesBig == {[T |-> [sigma |-> [i \in 1..d |-> IF Mod(i, 3) = 0 THEN QI(2) ELSE IF Mod(i, 3) = 1 THEN Dy(1, 1) ELSE One],
                     mean |-> [i \in 1..d |-> IF Mod(i, 2) = 0 THEN QI(1) ELSE Z],
                     U |-> [q \in 1..r |-> UnitVec(d, d + 1 - q)], s |-> [q \in 1..r |-> IF Mod(q, 2) = 0 THEN QI(2) ELSE Dy(1, 1)],
                     mu |-> [i \in 1..d |-> Z]],
              P |-> DiagP(d, LAMBDA i : IF Mod(i, 2) = 0 THEN One ELSE Dy(1, 1)), m |-> [i \in 1..d |-> QI(-3)],
              y |-> [i \in 1..d |-> IF i = k THEN QI(2) ELSE IF i = d + 1 - k THEN QI(-1) ELSE Z],
              v |-> [i \in 1..d |-> IF i = k THEN Dy(1, 1) ELSE IF i = Mod(k, d) + 1 THEN QI(1) ELSE Z], eps |-> e] :
                d \in {3, 5, 8, 9, 16, 17, 33, 64}, r \in {0, 1, 2}, k \in {1, 2}, e \in {Dy(1, 1), QI(-1)}}

\* a slice of d = 2 for the quick tier
Cases2q == {c \in Cases2 : c.T.sigma[2] = One /\ c.T.mu[1] = Z /\ c.y[1] = QI(-1)}
Cases == CASE Family = "d1" -> Cases1 [] Family = "d2" -> Cases2 [] Family = "d2q" -> Cases2q [] Family = "d4" -> Cases4 [] Family = "big" -> CasesBig

MCInit == case \in Cases
MCNext == UNCHANGED case
MCSpec == MCInit /\ [][MCNext]_case

InvReversible == Reversible(case.T, case.P, case.m, case.y, case.v, case.eps)
InvBijective == Bijective(case.T, case.y)
InvTextbook == Len(case.T.U) = 0 /\ case.T.mu = [i \in 1..Len(case.y) |-> Z]
                  => IsTextbook(case.T, case.P, case.m, case.y, case.v, case.eps)
\* the pull-back is the transpose of the Jacobian: <F'g, w> = <g, J w> with J w = sigma * L(s) w
InvPullBack == ~WithEnergy \/ LET g == GradQ(case.P, case.m, Fwd(case.T, case.y))
                   w == case.v
               IN VDot(PullBack(case.T, g), w) = VDot(g, VMul(case.T.sigma, LApply(case.T.U, case.T.s, w)))
EmitCase ==
    Emit => LET a == Leap(case.T, case.P, case.m, case.y, case.v, case.eps)
            IN PrintT(<<"REPLAY", ToJson([c |-> case, x0 |-> Fwd(case.T, case.y),
                        gx0 |-> GradQ(case.P, case.m, Fwd(case.T, case.y)),
                        gy0 |-> PullBack(case.T, GradQ(case.P, case.m, Fwd(case.T, case.y))),
                        logp0 |-> LogpQ(case.P, case.m, Fwd(case.T, case.y)),
                        hasE |-> WithEnergy,
                        dE |-> IF WithEnergy THEN EnergyChange(case.P, case.m, case.T, a) ELSE Z,
                        out |-> a, turn |-> IF WithEnergy THEN (IF (IF QLt(Z, case.eps) THEN IsTurning(case.y, case.v, a.y, a.v)
                                                      ELSE IsTurning(a.y, a.v, case.y, case.v)) THEN 1 ELSE 0) ELSE 2])>>)
=============================================================================
