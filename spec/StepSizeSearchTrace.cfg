CONSTANT MaxTries = 100
SPECIFICATION TSpec
INVARIANTS SearchInv
POSTCONDITION Accepted
CHECK_DEADLOCK FALSE
