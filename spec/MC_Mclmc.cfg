CONSTANTS
  MaxBase = 4
  MaxHalvings = 3
  MaxSteps = 40
SPECIFICATION MCSpec
INVARIANTS KernelInv Variant
CHECK_DEADLOCK FALSE
