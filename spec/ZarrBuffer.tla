----------------------------- MODULE ZarrBuffer -----------------------------
(***************************************************************************)
(* C15: the chunk buffer of the Zarr backends (src/storage/zarr/common.rs  *)
(* SampleBuffer; sync_impl.rs / async_impl.rs record_sample, flush,        *)
(* finalize) for one variable of one chain.                                *)
(*                                                                         *)
(*   buf        values pushed since the last full chunk                    *)
(*   cur        index of the chunk `buf` will become                       *)
(*   phase      "warm" / "sample" (buffers are reset at the first          *)
(*              posterior draw: the warm-up remainder is written as a      *)
(*              partial chunk and cur restarts at 0)                       *)
(*   store      what the key/value store holds: phase -> chunk index ->    *)
(*              sequence of values (a partial write replaces a prefix of   *)
(*              the chunk, a full write the whole chunk)                   *)
(*   inflight   async backend: chunk writes queued but not yet applied;    *)
(*              they complete in any order; flush and finalize join them   *)
(*   log        phase -> everything recorded (the abstract truth)          *)
(*   flushedLen phase -> how much of log the last flush covered            *)
(***************************************************************************)
EXTENDS Integers, Sequences, FiniteSets

CONSTANTS ChunkSize, Async,
          JoinOnFlush    \* TRUE: flush joins the pending async writes (the code); FALSE: teeth variant

VARIABLES buf, cur, phase, store, inflight, log, flushedLen, nextVal, finalized

zvars == <<buf, cur, phase, store, inflight, log, flushedLen, nextVal, finalized>>

Phases == {"warm", "sample"}
ZInit ==
    /\ buf = <<>> /\ cur = 0 /\ phase = "warm"
    /\ store = [p \in Phases |-> <<>>]         \* sequence of chunks (index k+1 = chunk k), may have gaps = <<>>
    /\ inflight = {}
    /\ log = [p \in Phases |-> <<>>]
    /\ flushedLen = [p \in Phases |-> 0]
    /\ nextVal = 1 /\ finalized = FALSE

\* writing `vals` as chunk k of phase p: a partial write replaces the first Len(vals) cells
Merge(old, vals) == [i \in 1..(IF Len(old) > Len(vals) THEN Len(old) ELSE Len(vals)) |->
                        IF i <= Len(vals) THEN vals[i] ELSE old[i]]
ChunkAt(st, p, k) == IF k + 1 <= Len(st[p]) THEN st[p][k + 1] ELSE <<>>
Put(st, p, k, vals) ==
    LET n == IF k + 1 > Len(st[p]) THEN k + 1 ELSE Len(st[p])
    IN [st EXCEPT ![p] = [i \in 1..n |-> IF i = k + 1 THEN Merge(ChunkAt(st, p, k), vals)
                                         ELSE IF i <= Len(st[p]) THEN st[p][i] ELSE <<>>]]

\* a chunk write: synchronous, or queued (async backend, full chunks and the warm-up remainder)
Write(p, k, vals, sync) ==
    IF Async /\ ~sync
    THEN /\ inflight' = inflight \cup {<<p, k, vals>>} /\ UNCHANGED store
    ELSE /\ store' = Put(store, p, k, vals) /\ UNCHANGED inflight

Push ==
    /\ ~finalized
    /\ LET b == Append(buf, nextVal)
       IN IF Len(b) = ChunkSize
          THEN /\ Write(phase, cur, b, FALSE) /\ buf' = <<>> /\ cur' = cur + 1
          ELSE /\ buf' = b /\ UNCHANGED <<cur, store, inflight>>
    /\ log' = [log EXCEPT ![phase] = Append(@, nextVal)]
    /\ nextVal' = nextVal + 1
    /\ UNCHANGED <<phase, flushedLen, finalized>>

\* first posterior draw: reset()
Switch ==
    /\ ~finalized /\ phase = "warm"
    /\ IF buf # <<>> THEN Write("warm", cur, buf, FALSE) ELSE UNCHANGED <<store, inflight>>
    /\ buf' = <<>> /\ cur' = 0 /\ phase' = "sample"
    /\ UNCHANGED <<log, flushedLen, nextVal, finalized>>

\* an async write lands
Land ==
    /\ \E w \in inflight :
          /\ store' = Put(store, w[1], w[2], w[3])
          /\ inflight' = inflight \ {w}
    /\ UNCHANGED <<buf, cur, phase, log, flushedLen, nextVal, finalized>>

RECURSIVE PutAll(_, _)
PutAll(st, ws) == IF ws = {} THEN st
                  ELSE LET w == CHOOSE x \in ws : TRUE IN PutAll(Put(st, w[1], w[2], w[3]), ws \ {w})

\* flush(): copy_as_chunk of the partial buffer written synchronously, then join all pending writes
Flush ==
    /\ ~finalized
    /\ store' = LET s1 == IF buf # <<>> THEN Put(store, phase, cur, buf) ELSE store
                IN IF JoinOnFlush THEN PutAll(s1, inflight) ELSE s1
    /\ inflight' = IF JoinOnFlush THEN {} ELSE inflight
    /\ flushedLen' = [p \in Phases |-> Len(log[p])]
    /\ UNCHANGED <<buf, cur, phase, log, nextVal, finalized>>

Finalize ==
    /\ ~finalized
    /\ store' = LET s1 == IF buf # <<>> THEN Put(store, phase, cur, buf) ELSE store IN PutAll(s1, inflight)
    /\ inflight' = {} /\ buf' = <<>>
    /\ flushedLen' = [p \in Phases |-> Len(log[p])]
    /\ finalized' = TRUE
    /\ UNCHANGED <<cur, phase, log, nextVal>>

ZNext == Push \/ Switch \/ Land \/ Flush \/ Finalize
ZSpec == ZInit /\ [][ZNext]_zvars

\* ---------------------------- reader's view ------------------------------
\* the array as a fresh reader sees it: chunks concatenated, each padded to ChunkSize with 0 (fill)
Cell(st, p, i) == LET k == (i - 1) \div ChunkSize
                      j == ((i - 1) % ChunkSize) + 1
                      c == ChunkAt(st, p, k)
                  IN IF j <= Len(c) THEN c[j] ELSE 0

\* C15: everything recorded before the last flush is visible, unchanged, whatever happened since
FlushedIntact == \A p \in Phases : \A i \in 1..flushedLen[p] : Cell(store, p, i) = log[p][i]
\* ... and after finalisation everything is
FinalComplete == finalized => \A p \in Phases : \A i \in 1..Len(log[p]) : Cell(store, p, i) = log[p][i]
\* the store never holds a value at a position where it was not recorded
NoGarbage == \A p \in Phases : \A k \in 0..(Len(store[p]) - 1) :
                 \A j \in 1..Len(ChunkAt(store, p, k)) :
                     LET i == k * ChunkSize + j
                     IN i <= Len(log[p]) /\ ChunkAt(store, p, k)[j] = log[p][i]
ZInv == FlushedIntact /\ FinalComplete /\ NoGarbage
=============================================================================
