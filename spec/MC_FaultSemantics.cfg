SPECIFICATION MCSpec
INVARIANT RulesConsistent
CHECK_DEADLOCK FALSE
