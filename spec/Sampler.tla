------------------------------ MODULE Sampler ------------------------------
(***************************************************************************)
(* The parallel chain controller of nuts-rs (src/sampler.rs): a user      *)
(* thread calling the Sampler API, the controller thread (main loop inside *)
(* a rayon scope), and one task per chain on a pool with NumCores worker   *)
(* slots.  Shared objects, as in the code:                                 *)
(*                                                                         *)
(*   commands / responses   rendezvous channels user <-> controller        *)
(*                          (sync_channel(0)): a send completes only when  *)
(*                          it is taken -> modelled as one joint action    *)
(*   mailbox[i]             unbounded channel controller -> chain i        *)
(*                          (Pause / Resume); alive[i] = its sender exists *)
(*   slot[i]                Arc<Mutex<Option<ChainStorage>>>: "present" /  *)
(*                          "taken"; the mutex is `holder[i]`              *)
(*   rec[i]                 number of draws recorded in chain i's storage  *)
(*                          (the log is the prefix of Full(i) of that      *)
(*                          length - chains share no other state)          *)
(*   prog[i]                ChainProgress.finished_draws (own mutex)       *)
(*   results                channel chains -> user of Ok / Err             *)
(*                                                                         *)
(* One action per critical section / channel operation of the code; the    *)
(* chain loop is                                                           *)
(*   try_recv -> match msg {Pause => recv (park), ..} -> draw ->           *)
(*   lock slot; if taken break; progress.update; record; unlock ->         *)
(*   draw == draws ? break : try_recv                                      *)
(* Failure actions model an unrecoverable density error at a draw, a       *)
(* storage error in record_sample, and failure of initialisation.          *)
(***************************************************************************)
EXTENDS Integers, Sequences, FiniteSets

CONSTANTS Chains,        \* set of chain ids, e.g. 0..1
          NumCores,      \* worker slots for chains
          Draws,         \* num_tune + num_draws (>= 1)
          MaxCmd,        \* user issues at most this many control commands
          MaxWait,       \* ... and at most this many wait_timeout calls (then only abort is left)
          Faults,        \* set of <<chain, kind, k>>: kind in {"fatal", "storage", "init"}; k = draw index
          UnwrapPanics   \* TRUE: `expanded_draw().unwrap()` in the chain loop (panics on a fatal
                         \* density error); FALSE: the error is propagated with `?`

VARIABLES
    upc,        \* user: [st, cmd]  st in idle / sending / awaiting / waiting / joining / done
    ures,       \* result of the user's terminal call: "none", "trace", "err", "panic", "okabort", "errabort"
    ncmd, nwait,
    cpc,        \* controller: [st, cmd, k]
    paused,     \* controller's is_paused flag
    ch,         \* chain i: [st, msg, draw]  st in queued / init / check / parked / drawing / locked /
                \*          recording / finishing / done / panicked
    mailbox, alive,
    slot, holder, rec, prog,
    results,    \* sequence of "ok"/"err" not yet received by the user
    senders,    \* number of live result senders (one per chain task not yet finished)
    cdone,      \* controller thread finished: "no", "ok", "err", "panic"
    failed,     \* set of chains in which a failure action happened
    \* history for C12
    win,        \* pause window open (pause() returned, resume() not yet called)
    quota,      \* per chain: commands queued at the moment pause() returned
    since       \* per chain: draws recorded since pause() returned

vars == <<upc, ures, ncmd, nwait, cpc, paused, ch, mailbox, alive, slot, holder, rec, prog,
          results, senders, cdone, failed, win, quota, since>>

Ctl == "ctl"
Cmds == {"pause", "resume", "progress", "flush", "inspect"}
\* chains are numbered 0..n-1; the controller visits them in that order
ChainSeq == [k \in 1..Cardinality(Chains) |-> k - 1]
NChains == Cardinality(Chains)

Busy == Cardinality({i \in Chains : ch[i].st \notin {"queued", "done", "panicked"}})
\* the controller occupies one pool thread until it has left its scope body
Capacity == IF cpc.st \in {"joining", "exit"} THEN NumCores + 1 ELSE NumCores

HasFault(i, kind, k) == <<i, kind, k>> \in Faults

Init ==
    /\ upc = [st |-> "idle", cmd |-> "none"]
    /\ ures = "none" /\ ncmd = 0 /\ nwait = 0
    /\ cpc = [st |-> "recv", cmd |-> "none", k |-> 1]
    /\ paused = FALSE
    /\ ch = [i \in Chains |-> [st |-> "queued", msg |-> "empty", draw |-> 0]]
    /\ mailbox = [i \in Chains |-> <<>>]
    /\ alive = [i \in Chains |-> TRUE]
    /\ slot = [i \in Chains |-> "present"]
    /\ holder = [i \in Chains |-> FALSE]
    /\ rec = [i \in Chains |-> 0]
    /\ prog = [i \in Chains |-> 0]
    /\ results = <<>>
    /\ senders = NChains
    /\ cdone = "no"
    /\ failed = {}
    /\ win = FALSE
    /\ quota = [i \in Chains |-> 0]
    /\ since = [i \in Chains |-> 0]

\* ================================ user =================================
\* pause / resume / progress / flush / inspect: commands.send(..) then responses.recv()
UCall(cmd) ==
    /\ upc.st = "idle" /\ ures = "none"
    /\ cmd \in Cmds /\ ncmd < MaxCmd
    /\ ncmd' = ncmd + 1
    /\ upc' = [st |-> "sending", cmd |-> cmd]
    \* the pause window closes when resume() is *called*
    /\ win' = IF cmd = "resume" THEN FALSE ELSE win
    /\ UNCHANGED <<ures, nwait, cpc, paused, ch, mailbox, alive, slot, holder, rec, prog, results,
                   senders, cdone, failed, quota, since>>

\* The controller is gone (its loop ended with an error): send/recv fail, the call returns Err.
UCallFails ==
    /\ upc.st \in {"sending", "awaiting"}
    /\ cpc.st \in {"finalize", "joining", "exit"}
    /\ upc' = [st |-> "idle", cmd |-> "none"]
    /\ UNCHANGED <<ures, ncmd, nwait, cpc, paused, ch, mailbox, alive, slot, holder, rec, prog,
                   results, senders, cdone, failed, win, quota, since>>

\* wait_timeout: loops on results.recv_timeout
UWait ==
    /\ upc.st = "idle" /\ ures = "none"
    /\ nwait < MaxWait
    /\ nwait' = nwait + 1
    /\ upc' = [st |-> "waiting", cmd |-> "fresh"]
    /\ UNCHANGED <<ures, ncmd, cpc, paused, ch, mailbox, alive, slot, holder, rec, prog,
                   results, senders, cdone, failed, win, quota, since>>

UWaitRecv ==
    /\ upc.st = "waiting" /\ results # <<>>
    /\ results' = Tail(results)
    /\ IF Head(results) = "ok"
       THEN /\ upc' = [upc EXCEPT !.cmd = "got"]
            /\ UNCHANGED ures
       ELSE \* Ok(Err(e)) => return Err(e, None); self is dropped (commands disconnect)
            /\ ures' = "err"
            /\ upc' = [st |-> "done", cmd |-> "wait"]
    /\ UNCHANGED <<ncmd, nwait, cpc, paused, ch, mailbox, alive, slot, holder, rec, prog,
                   senders, cdone, failed, win, quota, since>>

\* all result senders are gone and the queue is empty: Disconnected => self.abort()
UWaitDisconnected ==
    /\ upc.st = "waiting" /\ results = <<>> /\ senders = 0
    /\ upc' = [st |-> "joining", cmd |-> "wait"]
    /\ UNCHANGED <<ures, ncmd, nwait, cpc, paused, ch, mailbox, alive, slot, holder, rec, prog,
                   results, senders, cdone, failed, win, quota, since>>

\* recv_timeout times out on an empty queue; after at least one Ok result the
\* elapsed-time check of the loop can also end the call with Timeout
UWaitTimeout ==
    /\ upc.st = "waiting"
    /\ (results = <<>> /\ senders > 0) \/ upc.cmd = "got"
    /\ upc' = [st |-> "idle", cmd |-> "none"]
    /\ UNCHANGED <<ures, ncmd, nwait, cpc, paused, ch, mailbox, alive, slot, holder, rec, prog,
                   results, senders, cdone, failed, win, quota, since>>

\* abort(): drop(commands); main_thread.join()
UAbort ==
    /\ upc.st = "idle" /\ ures = "none"
    /\ upc' = [st |-> "joining", cmd |-> "abort"]
    /\ UNCHANGED <<ures, ncmd, nwait, cpc, paused, ch, mailbox, alive, slot, holder, rec, prog,
                   results, senders, cdone, failed, win, quota, since>>

UJoin ==
    /\ upc.st = "joining" /\ cdone # "no"
    \* abort() drains the result channel after the join: a chain error nobody received yet
    \* is reported next to the trace
    /\ ures' = CASE cdone = "panic" -> "panic"
                 [] cdone = "err" -> "err"
                 [] \E k \in 1..Len(results) : results[k] = "err" ->
                        IF upc.cmd = "abort" THEN "errabort" ELSE "err"
                 [] OTHER -> IF upc.cmd = "abort" THEN "okabort" ELSE "trace"
    /\ upc' = [st |-> "done", cmd |-> upc.cmd]
    /\ UNCHANGED <<ncmd, nwait, cpc, paused, ch, mailbox, alive, slot, holder, rec, prog,
                   results, senders, cdone, failed, win, quota, since>>

\* ============================= controller ==============================
\* rendezvous: commands_rx.recv_timeout returns the command the user is sending
CtlRecv ==
    /\ cpc.st = "recv" /\ upc.st = "sending"
    /\ upc' = [upc EXCEPT !.st = "awaiting"]
    /\ cpc' = [st |-> "handle", cmd |-> upc.cmd, k |-> 1]
    /\ UNCHANGED <<ures, ncmd, nwait, paused, ch, mailbox, alive, slot, holder, rec, prog,
                   results, senders, cdone, failed, win, quota, since>>

\* the user dropped `commands` (abort, or wait_timeout returned Err): Disconnected
CtlDisconnected ==
    /\ cpc.st = "recv"
    /\ \/ upc.st = "joining"
       \/ upc.st = "done"
    /\ cpc' = [st |-> "finalize", cmd |-> "none", k |-> 1]
    /\ UNCHANGED <<upc, ures, ncmd, nwait, paused, ch, mailbox, alive, slot, holder, rec, prog,
                   results, senders, cdone, failed, win, quota, since>>

\* `for chain in chains { let _ = chain.pause(); }` - one send per step
CtlForward ==
    /\ cpc.st = "handle" /\ cpc.cmd \in {"pause", "resume"}
    /\ cpc.k <= NChains
    /\ LET i == ChainSeq[cpc.k]
           m == IF cpc.cmd = "pause" THEN "Pause" ELSE "Resume"
       IN \* a send to a finished chain fails and is ignored
          mailbox' = IF ch[i].st \in {"done", "panicked"} THEN mailbox
                     ELSE [mailbox EXCEPT ![i] = Append(@, m)]
    /\ cpc' = [cpc EXCEPT !.k = @ + 1]
    /\ UNCHANGED <<upc, ures, ncmd, nwait, paused, ch, alive, slot, holder, rec, prog,
                   results, senders, cdone, failed, win, quota, since>>

\* flush / inspect visit every chain's slot under its mutex; progress reads prog[i]
CtlVisit ==
    /\ cpc.st = "handle" /\ cpc.cmd \in {"flush", "inspect", "progress"}
    /\ cpc.k <= NChains
    /\ cpc.cmd \in {"flush", "inspect"} => ~holder[ChainSeq[cpc.k]]
    /\ cpc' = [cpc EXCEPT !.k = @ + 1]
    /\ UNCHANGED <<upc, ures, ncmd, nwait, paused, ch, mailbox, alive, slot, holder, rec, prog,
                   results, senders, cdone, failed, win, quota, since>>

CtlLoopDone == IF cpc.cmd \in {"pause", "resume", "flush", "inspect", "progress"}
               THEN cpc.k > NChains ELSE TRUE

\* responses_tx.send(..) - rendezvous with the user's responses.recv()
CtlRespond ==
    /\ cpc.st = "handle" /\ CtlLoopDone
    /\ upc.st = "awaiting"
    /\ paused' = IF cpc.cmd = "pause" THEN TRUE ELSE IF cpc.cmd = "resume" THEN FALSE ELSE paused
    /\ cpc' = [st |-> "recv", cmd |-> "none", k |-> 1]
    /\ upc' = [st |-> "idle", cmd |-> "none"]
    \* C12 bookkeeping: the pause window opens when pause() returns
    /\ IF cpc.cmd = "pause"
       THEN /\ win' = TRUE
            /\ quota' = [i \in Chains |-> Len(mailbox[i])]
            /\ since' = [i \in Chains |-> 0]
       ELSE UNCHANGED <<win, quota, since>>
    /\ UNCHANGED <<ures, ncmd, nwait, ch, mailbox, alive, slot, holder, rec, prog,
                   results, senders, cdone, failed>>

\* finalize_many: take every chain's storage out of its slot (under the mutex) ...
CtlTake ==
    /\ cpc.st = "finalize" /\ cpc.k <= NChains
    /\ LET i == ChainSeq[cpc.k]
       IN /\ ~holder[i]
          /\ slot' = [slot EXCEPT ![i] = "taken"]
          \* ... dropping the ChainProcess drops the mailbox sender
          /\ alive' = [alive EXCEPT ![i] = FALSE]
    /\ cpc' = [cpc EXCEPT !.k = @ + 1]
    /\ UNCHANGED <<upc, ures, ncmd, nwait, paused, ch, mailbox, holder, rec, prog,
                   results, senders, cdone, failed, win, quota, since>>

CtlFinalized ==
    /\ cpc.st = "finalize" /\ cpc.k > NChains
    /\ cpc' = [st |-> "joining", cmd |-> "none", k |-> 1]
    /\ UNCHANGED <<upc, ures, ncmd, nwait, paused, ch, mailbox, alive, slot, holder, rec, prog,
                   results, senders, cdone, failed, win, quota, since>>

\* the rayon scope ends when every chain task has finished; a panicked task
\* makes the scope (and with it the controller thread) panic
CtlExit ==
    /\ cpc.st = "joining"
    /\ \A i \in Chains : ch[i].st \in {"done", "panicked"}
    /\ cdone' = IF \E i \in Chains : ch[i].st = "panicked" THEN "panic" ELSE "ok"
    /\ cpc' = [st |-> "exit", cmd |-> "none", k |-> 1]
    /\ UNCHANGED <<upc, ures, ncmd, nwait, paused, ch, mailbox, alive, slot, holder, rec, prog,
                   results, senders, failed, win, quota, since>>

\* =============================== chains ================================
ChStart(i) ==
    /\ ch[i].st = "queued" /\ Busy < Capacity
    /\ ch' = [ch EXCEPT ![i].st = "init"]
    /\ UNCHANGED <<upc, ures, ncmd, nwait, cpc, paused, mailbox, alive, slot, holder, rec, prog,
                   results, senders, cdone, failed, win, quota, since>>

TakeMsg(i) == IF mailbox[i] # <<>> THEN Head(mailbox[i])
              ELSE IF alive[i] THEN "empty" ELSE "disconnected"

\* What a (try_)recv on mailbox i may return, and its effect on the mailbox.
\* m = "empty" / "disconnected" leave it unchanged, a command pops the head.
PollOK(i, m) == m = TakeMsg(i)
Pop(i, m) == IF m \in {"Pause", "Resume"}
             THEN mailbox' = [mailbox EXCEPT ![i] = Tail(@)]
             ELSE UNCHANGED mailbox

\* model.math, new_chain, initial position (up to 500 attempts), first try_recv -> m
ChInit(i, fault, m) ==
    /\ ch[i].st = "init"
    /\ IF fault
       THEN /\ ch' = [ch EXCEPT ![i].st = "finishing", ![i].msg = "err"]
            /\ failed' = failed \cup {i}
            /\ UNCHANGED mailbox
       ELSE \* `while draw < draws`: with nothing to draw the loop body is never entered
            /\ ch' = IF Draws = 0 THEN [ch EXCEPT ![i].st = "finishing", ![i].msg = "ok"]
                     ELSE [ch EXCEPT ![i].st = "check", ![i].msg = m]
            /\ Pop(i, m)
            /\ UNCHANGED failed
    /\ UNCHANGED <<upc, ures, ncmd, nwait, cpc, paused, alive, slot, holder, rec, prog,
                   results, senders, cdone, win, quota, since>>

\* `match msg { .. }`
ChCheck(i) ==
    /\ ch[i].st = "check"
    /\ ch' = [ch EXCEPT ![i].st = CASE ch[i].msg = "disconnected" -> "finishing"
                                    [] ch[i].msg = "Pause" -> "parked"
                                    [] OTHER -> "drawing",
                        ![i].msg = IF ch[i].msg = "disconnected" THEN "ok" ELSE @]
    /\ UNCHANGED <<upc, ures, ncmd, nwait, cpc, paused, mailbox, alive, slot, holder, rec, prog,
                   results, senders, cdone, failed, win, quota, since>>

\* blocking recv() while parked on a Pause
ChUnpark(i, m) ==
    /\ ch[i].st = "parked"
    /\ m # "empty"
    /\ ch' = [ch EXCEPT ![i].st = "check", ![i].msg = m]
    /\ Pop(i, m)
    /\ UNCHANGED <<upc, ures, ncmd, nwait, cpc, paused, alive, slot, holder, rec, prog,
                   results, senders, cdone, failed, win, quota, since>>

\* sampler.expanded_draw()
ChDraw(i, fault) ==
    /\ ch[i].st = "drawing"
    /\ IF fault
       THEN /\ failed' = failed \cup {i}
            /\ IF UnwrapPanics
               THEN ch' = [ch EXCEPT ![i].st = "panicked"]
               ELSE ch' = [ch EXCEPT ![i].st = "finishing", ![i].msg = "err"]
            \* a panicking task drops its result sender without sending
            /\ senders' = IF UnwrapPanics THEN senders - 1 ELSE senders
       ELSE /\ ch' = [ch EXCEPT ![i].st = "locked"]
            /\ UNCHANGED <<failed, senders>>
    /\ UNCHANGED <<upc, ures, ncmd, nwait, cpc, paused, mailbox, alive, slot, holder, rec, prog,
                   results, cdone, win, quota, since>>

\* chain_trace.lock(); `let Some(trace_val) = guard.as_mut() else { break }`
ChLock(i) ==
    /\ ch[i].st = "locked" /\ ~holder[i]
    /\ IF slot[i] = "taken"
       THEN /\ ch' = [ch EXCEPT ![i].st = "finishing", ![i].msg = "ok"]
            /\ UNCHANGED <<holder, prog>>
       ELSE \* progress.lock().update(..) happens first, under the trace lock
            /\ holder' = [holder EXCEPT ![i] = TRUE]
            /\ prog' = [prog EXCEPT ![i] = @ + 1]
            /\ ch' = [ch EXCEPT ![i].st = "recording"]
    /\ UNCHANGED <<upc, ures, ncmd, nwait, cpc, paused, mailbox, alive, slot, rec,
                   results, senders, cdone, failed, win, quota, since>>

\* trace_val.record_sample(..)?; draw += 1; if draw == draws break  (the trace lock is
\* still held: the guard lives until the end of the loop body)
ChRecord(i, fault) ==
    /\ ch[i].st = "recording"
    /\ IF fault
       THEN /\ failed' = failed \cup {i}
            /\ holder' = [holder EXCEPT ![i] = FALSE]
            /\ ch' = [ch EXCEPT ![i].st = "finishing", ![i].msg = "err"]
            /\ UNCHANGED <<rec, since>>
       ELSE /\ rec' = [rec EXCEPT ![i] = @ + 1]
            /\ since' = [since EXCEPT ![i] = IF win THEN @ + 1 ELSE @]
            /\ UNCHANGED failed
            /\ IF ch[i].draw + 1 = Draws
               THEN /\ ch' = [ch EXCEPT ![i].st = "finishing", ![i].msg = "ok", ![i].draw = @ + 1]
                    /\ holder' = [holder EXCEPT ![i] = FALSE]
               ELSE /\ ch' = [ch EXCEPT ![i].st = "polling", ![i].draw = @ + 1]
                    /\ UNCHANGED holder
    /\ UNCHANGED <<upc, ures, ncmd, nwait, cpc, paused, mailbox, alive, slot, prog,
                   results, senders, cdone, win, quota>>

\* msg = stop_marker_rx.try_recv() at the bottom of the loop body; the guard is dropped
ChPoll(i, m) ==
    /\ ch[i].st = "polling"
    /\ ch' = [ch EXCEPT ![i].st = "check", ![i].msg = m]
    /\ Pop(i, m)
    /\ holder' = [holder EXCEPT ![i] = FALSE]
    /\ UNCHANGED <<upc, ures, ncmd, nwait, cpc, paused, alive, slot, rec, prog,
                   results, senders, cdone, failed, win, quota, since>>

\* results.send(result); drop(results)
ChFinish(i) ==
    /\ ch[i].st = "finishing"
    /\ results' = Append(results, ch[i].msg)
    /\ senders' = senders - 1
    /\ ch' = [ch EXCEPT ![i].st = "done"]
    /\ UNCHANGED <<upc, ures, ncmd, nwait, cpc, paused, mailbox, alive, slot, holder, rec, prog,
                   cdone, failed, win, quota, since>>

Terminated == upc.st = "done" /\ cpc.st = "exit" /\ \A i \in Chains : ch[i].st \in {"done", "panicked"}

UserNext == \/ \E c \in Cmds : UCall(c)
            \/ UCallFails \/ UWait \/ UWaitRecv \/ UWaitDisconnected \/ UWaitTimeout \/ UAbort \/ UJoin
CtlNext == CtlRecv \/ CtlDisconnected \/ CtlForward \/ CtlVisit \/ CtlRespond \/ CtlTake
           \/ CtlFinalized \/ CtlExit
ChainNext(i) ==
    \/ ChStart(i)
    \/ ChInit(i, HasFault(i, "init", 0), TakeMsg(i))
    \/ ChCheck(i)
    \/ ChUnpark(i, TakeMsg(i))
    \/ ChDraw(i, HasFault(i, "fatal", ch[i].draw))
    \/ ChLock(i)
    \/ ChRecord(i, HasFault(i, "storage", ch[i].draw))
    \/ ChPoll(i, TakeMsg(i))
    \/ ChFinish(i)

Next == UserNext \/ CtlNext \/ (\E i \in Chains : ChainNext(i))
        \/ (Terminated /\ UNCHANGED vars)

\* The user finally waits or aborts; controller and chains are scheduled fairly.
Fairness == /\ WF_vars(CtlNext)
            /\ \A i \in Chains : WF_vars(ChainNext(i))
            /\ WF_vars(UWaitRecv \/ UWaitDisconnected \/ UWaitTimeout \/ UJoin \/ UCallFails)
            /\ WF_vars(UWait \/ UAbort)

Spec == Init /\ [][Next]_vars /\ Fairness

\* ------------------------------ properties ------------------------------
TypeOK ==
    /\ \A i \in Chains : rec[i] \in 0..Draws /\ prog[i] \in 0..Draws
    /\ senders \in 0..NChains

\* C11: the trace of every chain is a prefix of the full run (rec <= Draws is
\* the abstract form: the log is Full(i) restricted to rec[i] entries), and the
\* progress counter is never behind the trace and at most one draw ahead.
PrefixOK == \A i \in Chains : rec[i] <= Draws /\ rec[i] <= prog[i] /\ prog[i] <= rec[i] + 1
\* C11: at quiescence the progress counters agree with the trace.
QuiescentAgree ==
    \A i \in Chains \ failed : ~holder[i] => prog[i] = rec[i]

\* C11: a run that is not aborted and has no failure records everything and reports Trace.
CompleteRun ==
    (upc.st = "done" /\ ures = "trace" /\ failed = {}) => \A i \in Chains : rec[i] = Draws
NoFailureMeansNoErr ==
    (upc.st = "done" /\ failed = {}) => ures \in {"trace", "okabort"}
\* C13 for abort(): a failure that happened before the join is reported
AbortReportsFailure ==
    (upc.st = "done" /\ upc.cmd = "abort" /\ failed # {} /\ ures # "panic") =>
        (ures \in {"err", "errabort"} \/ \A i \in failed : FALSE)

\* C12
PauseBound == win => \A i \in Chains : since[i] <= quota[i]
ParkedSilent == \A i \in Chains : ch[i].st = "parked" => ~holder[i]

\* C13: a failure in any chain surfaces as Err: never a panic in the caller, never success
\* from wait_timeout.  (What abort() returns after a failure is reported separately.)
NoPanic == ures # "panic"
WaitReportsFailure == (upc.st = "done" /\ upc.cmd = "wait" /\ failed # {}) => ures = "err"

\* C11 liveness: every call returns and the sampler terminates.
Termination == <>Terminated
=============================================================================
