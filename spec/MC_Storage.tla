----------------------------- MODULE MC_Storage -----------------------------
(* Enumerates operation sequences for the storage backends (one chain's       *)
(* pattern; the harness mirrors it onto further chains) and checks the        *)
(* design-level properties of the abstract log.  Each complete behaviour is   *)
(* printed as a replay script for `vh replay-storage`.                        *)
EXTENDS Storage, TLC, Json
CONSTANTS MaxTune, MaxDraws, EmitOps
VARIABLES ops, nflush, ninspect
mvars == <<stvars, ops, nflush, ninspect>>
TheCfg == [chains |-> 1, storeWarmup |-> TRUE, fullEvents |-> TRUE, optVecs |-> TRUE, specials |-> FALSE,
           numTune |-> MaxTune, numDraws |-> MaxDraws]
MCInit == /\ cfg = TheCfg /\ log = [i \in {0} |-> <<>>] /\ flushed = [i \in {0} |-> 0]
          /\ ops = <<>> /\ nflush = 0 /\ ninspect = 0
NTune == Cardinality({k \in 1..Len(log[0]) : log[0][k].tuning})
NSample == Len(log[0]) - NTune
MCNext ==
    \/ \E t \in BOOLEAN, d \in BOOLEAN, u \in BOOLEAN :
          /\ (t => NTune < MaxTune /\ NSample = 0)
          /\ (~t => NSample < MaxDraws)
          /\ Record(0, t, d, u)
          /\ ops' = Append(ops, [op |-> "record", tuning |-> t, div |-> d, upd |-> u])
          /\ UNCHANGED <<nflush, ninspect>>
    \/ /\ nflush < 1 /\ Len(log[0]) > 0 /\ (ops[Len(ops)].op = "record")
       /\ Flush /\ ops' = Append(ops, [op |-> "flush"]) /\ nflush' = nflush + 1 /\ UNCHANGED ninspect
    \/ /\ ninspect < 1 /\ Len(ops) > 0 /\ ops[Len(ops)].op = "record"
       /\ ops' = Append(ops, [op |-> "inspect"]) /\ ninspect' = ninspect + 1
       /\ UNCHANGED <<stvars, nflush>>
MCSpec == MCInit /\ [][MCNext]_mvars
\* every state is a possible end of the run (finalize can come at any time: aborted runs)
EmitReplay == EmitOps => PrintT(<<"REPLAY", ToJson([ops |-> ops])>>)
=============================================================================
