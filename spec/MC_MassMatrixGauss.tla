------------------------ MODULE MC_MassMatrixGauss ------------------------
EXTENDS MassMatrixGauss
\* (<<-30>> / <<30>> in 50 dimensions: the product of the scales leaves the range of a double, their logarithms do not)
ExpsQuick == {<<0>>, <<-20, 20>>, <<4, -3, 0>>, <<20, 0, -20>>, <<-30>>, <<30>>}
ExpsFull == ExpsQuick \cup {<<-20>>, <<20>>, <<-3, 4>>, <<0, 20, -20, 4, -3>>, <<-20, -20, 20>>}
\* means as numerator over 2 (so -2049 is -1024.5)
MusQuick == {<<0>>, <<6, -2049>>, <<0, 0, 1>>}
MusFull == MusQuick \cup {<<-2049>>, <<2000001, 0, -7>>}
PatsQuick == {<<-1, 0, 1>>, <<1, 2, 3>>, <<0, 0, 5, -2>>, <<7, -7, 7, -6, 3>>}
PatsFull == PatsQuick \cup {<<1, 1, 2>>, <<100, 101, 99>>, <<0, 1, 0, -1, 0, 2, 0>>, <<-3, -2, -1>>}
=============================================================================
