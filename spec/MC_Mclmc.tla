------------------------------ MODULE MC_Mclmc ------------------------------
EXTENDS Mclmc, TLC
CONSTANTS MaxBase, MaxHalvings, MaxSteps
MCNext ==
    \/ \E nb \in 1..MaxBase, mh \in 0..MaxHalvings : phase = "idle" /\ Start(nb, mh)
    \/ StepOk
    \/ (steps < MaxSteps /\ StepDiv)
MCSpec == KInit /\ [][MCNext]_kvars
\* the loop terminates: with no further divergences it finishes (checked as: from every
\* reachable loop state a finite run of StepOk reaches done; bounded by the remaining work)
Variant == (phase = "loop") => remaining > 0
Reachable3 == ~(phase = "done" /\ ~diverged /\ retried /\ steps >= numBase + 3)
=============================================================================
