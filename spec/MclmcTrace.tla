----------------------------- MODULE MclmcTrace -----------------------------
(* Hook events of real MCLMC chains (all three MCLMC presets) against Mclmc.  *)
(* Numeric facts arrive as harness-side predicates (declared in the evidence): *)
(*   nbok   num_base == max(1, round(subsample_frequency * L / eps)) for the   *)
(*          step size eps in force for this draw                               *)
(*   unit   |p|^2 == 1 within 1e-9 after this step / refresh (microcanonical)  *)
(*   eshok  every ESH momentum update since the previous step equals the       *)
(*          closed form (p + g^(sinh d + a(cosh d - 1))) / (cosh d + a sinh d) *)
(*          and its kinetic energy change (n-1) ln(cosh d + a sinh d), 1e-9    *)
EXTENDS Mclmc, TLC, Json, IOUtils
Rec == ndJsonDeserialize(IOEnv.TRACE)
VARIABLES l, chain   \* chain: [drawNo, lastPh, startPh, endPh, switched, expectResample, switchDraw, tk]
tvars == <<kvars, l, chain>>
R == Rec[l]
IsEvent(e) == l <= Len(Rec) /\ Rec[l].e = e /\ l' = l + 1
NoChain == [drawNo |-> 0, lastPh |-> "", startPh |-> "", endPh |-> "", switched |-> 0,
            expectResample |-> FALSE, switchDraw |-> -1, tk |-> "none"]
TInit == KInit /\ l = 1 /\ chain = NoChain

TrReset ==
    /\ IsEvent("reset")
    /\ phase' = "idle" /\ UNCHANGED <<numBase, maxH, remaining, stack, fexp, steps, time, retried, diverged>>
    /\ chain' = [NoChain EXCEPT !.switchDraw = R.switchDraw, !.tk = R.tk]

\* Euclidean -> Microcanonical: once, at the configured draw
TrSwitch ==
    /\ IsEvent("mswitch")
    /\ chain.switched = 0 /\ chain.tk = "EuclideanEarlyThenMicrocanonical"
    /\ R.draw = chain.drawNo /\ R.draw = chain.switchDraw
    /\ chain' = [chain EXCEPT !.switched = 1, !.expectResample = TRUE]
    /\ UNCHANGED kvars

ExpectedKind ==
    CASE chain.tk = "Microcanonical" -> "Microcanonical"
      [] chain.tk = "Euclidean" -> "Euclidean"
      [] OTHER -> IF chain.switched = 1 THEN "Microcanonical" ELSE "Euclidean"

TrStart ==
    /\ IsEvent("mstart")
    /\ Start(R.numBase, R.maxh)
    /\ R.nbok
    /\ R.maxh = (IF R.dynamic THEN 10 ELSE 0)
    /\ R.kind = ExpectedKind
    \* the switch must have happened by now if its draw has come
    /\ (chain.tk = "EuclideanEarlyThenMicrocanonical" /\ chain.drawNo >= chain.switchDraw) => chain.switched = 1
    /\ R.resample = chain.expectResample
    /\ R.kind = "Microcanonical" => R.unit
    \* the trajectory starts where the previous draw ended
    /\ chain.lastPh # "" => R.ph = chain.lastPh
    /\ chain' = [chain EXCEPT !.startPh = R.ph, !.expectResample = FALSE]

TrStep ==
    /\ IsEvent("mstep")
    /\ R.fexp = fexp /\ R.remaining = remaining /\ R.depth = Len(stack)
    /\ CASE R.res = "ok" -> StepOk /\ R.unit /\ R.eshok /\ R.steps = steps + 1
         [] R.res = "div" -> StepDiv /\ ~diverged' /\ R.eshok
         [] R.res = "giveup" -> StepDiv /\ diverged' /\ R.eshok
    /\ UNCHANGED chain

TrEnd ==
    /\ IsEvent("mend")
    /\ phase = "done"
    /\ R.div = diverged /\ R.steps = steps
    \* a divergent draw leaves the position unchanged and has a fresh (unit) momentum
    \* (fresh: a momentum was resampled after the last step of the draw - harness side, from the momentum hook)
    /\ diverged => (R.ph = chain.startPh /\ R.unit /\ R.fresh)
    /\ chain' = [chain EXCEPT !.endPh = R.ph]
    /\ UNCHANGED kvars

TrOut ==
    /\ IsEvent("out")
    /\ phase = "done"
    /\ R.numsteps = steps /\ R.snumsteps = steps /\ R.diverging = diverged
    /\ R.ph = chain.endPh
    /\ chain' = [chain EXCEPT !.drawNo = @ + 1, !.lastPh = R.ph]
    /\ UNCHANGED kvars

TNext == TrReset \/ TrSwitch \/ TrStart \/ TrStep \/ TrEnd \/ TrOut
TSpec == TInit /\ [][TNext]_tvars
Accepted ==
    LET d == TLCGet("stats").diameter
    IN IF d - 1 = Len(Rec) THEN TRUE
       ELSE Print(<<"TRACE-REJECTED at line", d, Rec[d]>>, FALSE)
=============================================================================
