--------------------------- MODULE NutsTreeTrace ---------------------------
(***************************************************************************)
(* Trace validation: the hook events of real chains (projected by         *)
(* lib/project.py; one JSON object per line in the file named by the      *)
(* environment variable TRACE) must be a behaviour of NutsTree, with the  *)
(* orbit facts bound to what the implementation logged.  On top of the    *)
(* tree automaton the trace spec tracks, per trajectory, which position   *)
(* (hash of the bit pattern), log-density and energy the integrator       *)
(* produced at each index, and checks (C03)                               *)
(*   - the returned draw is the start or the end state of a successful    *)
(*     leapfrog of this trajectory, outside discarded sub-trees,          *)
(*   - the reported statistics are those of that state / trajectory,      *)
(*   - the next trajectory starts from the returned draw.                 *)
(***************************************************************************)
EXTENDS NutsTree, TLC, Json, IOUtils

Rec == ndJsonDeserialize(IOEnv.TRACE)

VARIABLES l,        \* next line of the trace
          last      \* [ph, gh] of the previous draw of this chain ("" if none)

tvars == <<vars, l, last>>

IsEvent(e) == l <= Len(Rec) /\ Rec[l].e = e /\ l' = l + 1
R == Rec[l]

TInit == Init /\ l = 1 /\ last = [ph |-> "", gh |-> ""]

\* a new chain starts
TrReset ==
    /\ IsEvent("reset")
    /\ phase \in {"idle", "done"}
    /\ phase' = "idle" /\ res' = None
    /\ last' = [ph |-> "", gh |-> ""]
    /\ UNCHANGED <<main, stk, dir, checking, inExtra, extraLeft, tc, turning, pend,
                   cfg, nleap, rejected, visited>>

TrInit ==
    /\ IsEvent("init")
    /\ TrajInit([mind |-> R.mind, maxd |-> R.maxd, cfgMaxd |-> R.cfgMaxd, extra |-> R.extra,
                 check |-> R.check, dim |-> R.dim], 0,
                [ph |-> R.ph, logp |-> R.logp, energy |-> R.e0, gh |-> last.gh])
    \* the trajectory starts from the previous draw
    /\ last.ph # "" => R.ph = last.ph
    \* the reference energy of the trajectory is the energy of the start point with its fresh momentum
    /\ R.e0ok
    /\ UNCHANGED last

TrDir ==
    /\ IsEvent("dir")
    /\ ChooseDir(R.d)
    \* the code's own view of whether U-turn checks are active in this doubling
    /\ R.check = (cfg.check /\ main.depth >= cfg.mind)
    /\ UNCHANGED last

TrLeap ==
    /\ IsEvent("leap")
    /\ phase = "ext" /\ Top.other = None
    /\ R.start = LeapStart /\ R.d = dir
    \* divergent exactly when the energy error exceeds the configured max_energy_error (harness-side, from the settings)
    /\ R.eeok
    /\ IF R.res = "ok"
       THEN /\ R["end"] = LeapStart + dir
            /\ Leap("ok", 0, [ph |-> R.ph, logp |-> R.logp, energy |-> R.energy, gh |-> R.gh])
       ELSE Leap(R.res, 0, 0)
    /\ UNCHANGED last

TrTurn ==
    /\ IsEvent("turn")
    /\ TurnCheck(R.k, R.i, R.j, R.b)
    \* harness-side recomputation of the criterion agrees (when available)
    /\ R.hb \in {"na", IF R.b THEN "t" ELSE "f"}
    /\ UNCHANGED last

TrMerge ==
    /\ IsEvent("merge")
    /\ ReadyToJoin /\ ChecksDone
    /\ R.main = Top.self.main /\ R.depth = Top.self.depth
    /\ R.lo = MergedLo /\ R.hi = MergedHi
    /\ R.selfdraw = Top.self.draw /\ R.otherdraw = Top.other.draw
    /\ R.draw = Merged(R.acc).draw
    \* weight comparison forces acceptance; probability and log-size
    \* arithmetic re-checked harness-side
    /\ R.ge => R.acc
    /\ R.pok
    /\ Merge(R.acc)
    /\ UNCHANGED last

TrSubRej ==
    /\ IsEvent("sub_rej")
    /\ SubRej(R.why, R.depth)
    /\ UNCHANGED last

TrExtra ==
    /\ IsEvent("extra")
    /\ R.depth = main.depth
    /\ Extra
    /\ UNCHANGED last

\* The return points of draw.  The spec decides which return is enabled
\* (ReturnTurn / ReturnMaxdepth fire here; divergence, dim0 and error have
\* already moved to "done" in the action that caused them).
TrRet ==
    /\ IsEvent("ret")
    /\ \/ phase = "done" /\ UNCHANGED vars
       \/ ReturnTurn
       \/ ReturnMaxdepth
    /\ res'.why = R.why /\ ~res'.err
    /\ res'.idx = R.idx /\ res'.depth = R.depth /\ res'.maxd = R.maxd /\ res'.div = R.div
    /\ res'.lo = R.lo /\ res'.hi = R.hi
    \* the returned state is the one this trajectory produced at that index
    \* (its identity travelled with the tree's draw through every merge)
    /\ res'.tag.ph = R.ph /\ res'.tag.logp = R.logp /\ res'.tag.energy = R.energy
    /\ R.finite
    /\ UNCHANGED last

TrRetErr ==
    /\ IsEvent("ret_err")
    /\ phase = "done" /\ res.err
    /\ UNCHANGED <<vars, last>>

\* What the public API handed out for this draw.
TrOut ==
    /\ IsEvent("out")
    /\ phase = "done"
    /\ IF res.err
       THEN R.res = "err" /\ UNCHANGED last
       ELSE IF R.res = "err"
       \* the tree returned a draw, but the step-size search that is re-run after the first change of the
       \* transformation hit an unrecoverable error: the call reports it (C05) and the draw is not delivered
       THEN R.after = "search_err" /\ UNCHANGED last
       ELSE /\ R.res = "ok"
            /\ R.ph = res.tag.ph
            /\ R.depth = res.depth /\ R.idx = res.idx
            /\ R.maxd = res.maxd /\ R.div = res.div
            /\ R.nsteps = nleap /\ R.pnsteps = nleap
            /\ R.logp = res.tag.logp
            /\ R.energy = res.tag.energy
            /\ R.eerrok
            /\ R.gh \in {"", "?"} \/ res.tag.gh \in {"", "?"} \/ R.gh = res.tag.gh
            /\ R.finite
            /\ last' = [ph |-> R.ph, gh |-> res.tag.gh]
    /\ Reset

TNext == \/ TrReset \/ TrInit \/ TrDir \/ TrLeap \/ TrTurn \/ TrMerge \/ TrSubRej
         \/ TrExtra \/ TrRet \/ TrRetErr \/ TrOut

TSpec == TInit /\ [][TNext]_tvars

\* Acceptance: every line was explained.  TInit consumes nothing, so the
\* diameter of the (linear) state graph is Len(Rec) + 1.
Accepted ==
    LET d == TLCGet("stats").diameter
    IN IF d - 1 = Len(Rec) THEN TRUE
       ELSE Print(<<"TRACE-REJECTED at line", d, Rec[d]>>, FALSE)
=============================================================================
