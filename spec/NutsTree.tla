------------------------------ MODULE NutsTree ------------------------------
(***************************************************************************)
(* Operational model of nuts::draw / NutsTree::extend / merge_into         *)
(* (src/nuts.rs).  One action per observable step of the code:             *)
(*                                                                         *)
(*   TrajInit      initialize_trajectory + effective depth bounds          *)
(*   ChooseDir     `let direction = rng.random()` in the while loop        *)
(*   Leap          single_step (one leapfrog): ok / divergence / error     *)
(*   TurnCheck     one call of is_turning in extend (whole, rr, ll)        *)
(*   Merge         merge_into (multinomial selection)                      *)
(*   SubRej        a pending sub-tree is discarded (`return Turning(self)` *)
(*                 / `return Diverging(self, info)` inside the while loop  *)
(*                 of extend)                                              *)
(*   Extra         one iteration of the extra_doublings loop               *)
(*   Return        any of the return points of draw                        *)
(*                                                                         *)
(* The recursion of extend is an explicit stack of frames [self, other].   *)
(* Deterministic control steps that have no event (re-entering extend for  *)
(* `while other.depth < self.depth`) are folded into the preceding action  *)
(* by Normalize, so that every action corresponds to exactly one logged    *)
(* event of the implementation (hooks under cfg(nuts_rs_verif)).           *)
(*                                                                         *)
(* The orbit is not a constant here: the facts an execution learns about   *)
(* it (weight of a new point, outcome of a leapfrog, answer of a U-turn    *)
(* query, accept decision) are action parameters.  The model-checking      *)
(* module quantifies over them, the trace module binds them to the log.    *)
(* No pair (i,j) is queried twice in one trajectory, so independent        *)
(* answers are consistent with some orbit.                                 *)
(***************************************************************************)
EXTENDS Integers, Sequences, FiniteSets

None == [none |-> TRUE]

VARIABLES
    phase,      \* "idle", "loop", "ext", "unwind", "turned", "done"
    main,       \* the main tree
    stk,        \* frames of the current top-level extend; stk[1] is the main frame
    dir,        \* direction of the current extension (1 / -1)
    checking,   \* U-turn checks active in the current extension
    inExtra,    \* the current extension belongs to the extra_doublings loop
    extraLeft,  \* remaining extra doublings
    tc,         \* number of U-turn checks already done in the top frame
    turning,    \* result of the checks so far in the top frame
    pend,       \* why we unwind: "turn" / "div"
    cfg,        \* [mind, maxd, cfgMaxd, extra, check, dim]
    nleap,      \* leapfrogs performed (incl. a divergent one)
    rejected,   \* set of index spans <<lo, hi>> of discarded sub-trees
    visited,    \* <<lo, hi>>: span of indices reached by successful leapfrogs (and 0)
    res         \* result record, valid when phase = "done"

vars == <<phase, main, stk, dir, checking, inExtra, extraLeft, tc, turning,
          pend, cfg, nleap, rejected, visited, res>>

\* `tag` identifies the state held as the tree's draw (an opaque value: the
\* index in model checking, the logged position/energy identity in traces);
\* it travels with the draw through merges exactly like the State handle in
\* the code.
Leaf(i, w, isMain, tag) ==
    [lo |-> i, hi |-> i, draw |-> i, depth |-> 0, w |-> w, main |-> isMain, tag |-> tag]

Top == stk[Len(stk)]

\* `while other.depth < self.depth { other = other.extend(..) }`: entering
\* extend on `other` pushes a frame that will single_step next.
RECURSIVE Normalize(_)
Normalize(s) ==
    LET f == s[Len(s)]
    IN IF f.other # None /\ f.other.depth < f.self.depth
       THEN Normalize(Append(s, [self |-> f.other, other |-> None]))
       ELSE s

Init ==
    /\ phase = "idle"
    /\ main = None /\ stk = <<>> /\ dir = 1 /\ checking = TRUE
    /\ inExtra = FALSE /\ extraLeft = 0 /\ tc = 0 /\ turning = FALSE
    /\ pend = "none" /\ cfg = None /\ nleap = 0
    /\ rejected = {} /\ visited = <<0, 0>> /\ res = None

Finish(reason, isDiv, isMaxd, tree) ==
    /\ phase' = "done"
    /\ res' = [why |-> reason, idx |-> tree.draw, depth |-> tree.depth,
               maxd |-> isMaxd, div |-> isDiv, lo |-> tree.lo, hi |-> tree.hi,
               err |-> FALSE, tag |-> tree.tag]
    /\ main' = tree
    /\ stk' = <<>>

\* ------------------------------------------------------------------------
TrajInit(c, w0, tag0) ==
    /\ phase = "idle"
    /\ cfg' = c
    /\ extraLeft' = c.extra
    /\ nleap' = 0 /\ rejected' = {} /\ visited' = <<0, 0>>
    /\ IF c.dim = 0
       THEN /\ Finish("dim0", FALSE, FALSE, Leaf(0, w0, TRUE, tag0))
            /\ UNCHANGED <<dir, checking, inExtra, tc, turning, pend>>
       ELSE /\ phase' = "loop"
            /\ main' = Leaf(0, w0, TRUE, tag0)
            /\ res' = None
            /\ UNCHANGED <<stk, dir, checking, inExtra, tc, turning, pend>>

\* The while loop of draw is exhausted: `tree.depth < maxdepth` is false.
ReturnMaxdepth ==
    /\ phase = "loop" /\ main.depth >= cfg.maxd
    /\ Finish("maxdepth", FALSE, TRUE, main)
    /\ UNCHANGED <<dir, checking, inExtra, extraLeft, tc, turning, pend, cfg,
                   nleap, rejected, visited>>

ChooseDir(d) ==
    /\ phase = "loop" /\ main.depth < cfg.maxd
    /\ dir' = d
    /\ checking' = (cfg.check /\ main.depth >= cfg.mind)
    /\ inExtra' = FALSE
    /\ stk' = <<[self |-> main, other |-> None]>>
    /\ tc' = 0 /\ turning' = FALSE
    /\ phase' = "ext"
    /\ UNCHANGED <<main, extraLeft, pend, cfg, nleap, rejected, visited, res>>

LeapStart == IF dir = 1 THEN Top.self.hi ELSE Top.self.lo

\* Indices of all trees held by the frames from position k upward, plus the
\* pending `other` trees: what is thrown away when frames k.. are discarded.
Span(t) == <<t.lo, t.hi>>
FrameSet(f) == IF f.other = None THEN {} ELSE {Span(f.other)}
DiscardFrom(k) ==
    UNION {{Span(stk[j].self)} \cup FrameSet(stk[j]) : j \in k..Len(stk)}
InSpans(i, S) == \E sp \in S : sp[1] <= i /\ i <= sp[2]

\* Result of the main-level extend when a sub-tree (or the first step) fails.
BeginUnwind(why, s) ==
    \* s: the stack after removing the frame that returned
    IF Len(s) = 0
    THEN \* the main frame itself returned
         IF why = "div"
         THEN /\ Finish(IF inExtra THEN "extra_div" ELSE "div", TRUE, FALSE, main)
              /\ UNCHANGED <<pend>>
         ELSE /\ phase' = "turned" /\ stk' = s /\ UNCHANGED <<main, res, pend>>
    ELSE /\ phase' = "unwind" /\ pend' = why /\ stk' = s
         /\ UNCHANGED <<main, res>>

Leap(kind, w, tag) ==
    /\ phase = "ext" /\ Top.other = None
    /\ nleap' = IF kind = "err" THEN nleap ELSE nleap + 1
    /\ CASE kind = "ok" ->
              /\ stk' = Normalize([stk EXCEPT ![Len(stk)].other =
                                     Leaf(LeapStart + dir, w, FALSE, tag)])
              /\ visited' = <<IF LeapStart + dir < visited[1] THEN LeapStart + dir ELSE visited[1],
                               IF LeapStart + dir > visited[2] THEN LeapStart + dir ELSE visited[2]>>
              /\ tc' = 0 /\ turning' = FALSE
              /\ UNCHANGED <<phase, main, pend, res, rejected>>
         [] kind = "div" ->
              \* the frame that stepped returns Diverging(self, info); everything
              \* built in this extension except the main tree is discarded
              /\ rejected' = rejected \cup
                     (DiscardFrom(1) \ {Span(main)})
              /\ BeginUnwind("div", SubSeq(stk, 1, Len(stk) - 1))
              /\ UNCHANGED <<visited, tc, turning>>
         [] kind = "err" ->
              /\ phase' = "done"
              /\ res' = [why |-> "err", idx |-> 0, depth |-> main.depth, maxd |-> FALSE,
                         div |-> FALSE, lo |-> main.lo, hi |-> main.hi, err |-> TRUE,
                         tag |-> main.tag]
              /\ stk' = <<>>
              /\ UNCHANGED <<main, pend, rejected, visited, tc, turning>>
    /\ UNCHANGED <<dir, checking, inExtra, extraLeft, cfg>>

\* The merged span of the top frame and the three pairs extend checks.
MergedLo == IF dir = 1 THEN Top.self.lo ELSE Top.other.lo
MergedHi == IF dir = 1 THEN Top.other.hi ELSE Top.self.hi
ReadyToJoin == phase = "ext" /\ Top.other # None /\ Top.other.depth = Top.self.depth
ChecksNeeded == IF ~checking THEN 0 ELSE IF Top.self.depth > 0 THEN 3 ELSE 1
ChecksDone == ~checking \/ turning \/ tc >= ChecksNeeded
\* pair queried by the tc-th check, as (state1, state2) in call order
ExpectedPair ==
    CASE tc = 0 -> <<"whole", MergedLo, MergedHi>>
      [] tc = 1 -> <<"rr", Top.self.hi, Top.other.hi>>
      [] tc = 2 -> <<"ll", Top.self.lo, Top.other.lo>>

TurnCheck(k, i, j, b) ==
    /\ ReadyToJoin /\ ~ChecksDone
    /\ <<k, i, j>> = ExpectedPair
    /\ tc' = tc + 1
    /\ turning' = b
    /\ UNCHANGED <<phase, main, stk, dir, checking, inExtra, extraLeft, pend, cfg,
                   nleap, rejected, visited, res>>

Merged(acc) ==
    [lo |-> MergedLo, hi |-> MergedHi,
     draw |-> IF acc THEN Top.other.draw ELSE Top.self.draw,
     depth |-> Top.self.depth + 1, w |-> Top.self.w + Top.other.w,
     main |-> Top.self.main,
     tag |-> IF acc THEN Top.other.tag ELSE Top.self.tag]

\* merge_into, followed by the return of this extend call to its caller.
Merge(acc) ==
    /\ ReadyToJoin /\ ChecksDone
    /\ LET t == Merged(acc)
           rest == SubSeq(stk, 1, Len(stk) - 1)
       IN IF Len(stk) = 1
          THEN \* main frame: back in draw
               /\ main' = t /\ stk' = <<>> /\ res' = None
               /\ phase' = IF turning THEN "turned" ELSE IF inExtra THEN "turned" ELSE "loop"
               /\ UNCHANGED <<pend, rejected>>
          ELSE IF turning
               THEN \* caller discards: `Turning(_) => return Turning(self)`
                    /\ rejected' = rejected \cup (DiscardFrom(1) \ {Span(main)})
                    /\ BeginUnwind("turn", rest)
               ELSE /\ stk' = Normalize([rest EXCEPT ![Len(rest)].other = t])
                    /\ UNCHANGED <<phase, main, pend, res, rejected>>
    /\ tc' = 0 /\ turning' = FALSE
    /\ UNCHANGED <<dir, checking, inExtra, extraLeft, cfg, nleap, visited>>

\* One enclosing extend call drops its pending sub-tree and returns.
SubRej(why, d) ==
    /\ phase = "unwind" /\ pend = why /\ Len(stk) >= 1
    /\ d = Top.self.depth
    /\ BeginUnwind(why, SubSeq(stk, 1, Len(stk) - 1))
    /\ UNCHANGED <<dir, checking, inExtra, extraLeft, tc, turning, cfg, nleap,
                   rejected, visited>>

\* draw got ExtendResult::Turning(tree) (or finished an extra doubling).
Extra ==
    /\ phase = "turned" /\ extraLeft > 0
    /\ extraLeft' = extraLeft - 1
    /\ inExtra' = TRUE
    /\ checking' = FALSE
    /\ stk' = <<[self |-> main, other |-> None]>>
    /\ tc' = 0 /\ turning' = FALSE
    /\ phase' = "ext"
    /\ UNCHANGED <<main, dir, pend, cfg, nleap, rejected, visited, res>>

ReturnTurn ==
    /\ phase = "turned" /\ extraLeft = 0
    /\ Finish("turn", FALSE, FALSE, main)
    /\ UNCHANGED <<dir, checking, inExtra, extraLeft, tc, turning, pend, cfg,
                   nleap, rejected, visited>>

Reset ==
    /\ phase = "done"
    /\ phase' = "idle"
    /\ UNCHANGED <<main, stk, dir, checking, inExtra, extraLeft, tc, turning, pend,
                   cfg, nleap, rejected, visited, res>>

\* ------------------------------ invariants ------------------------------
Pow2(n) == 2 ^ n

TreeOK(t) ==
    /\ t.lo <= t.draw /\ t.draw <= t.hi
    /\ t.hi - t.lo + 1 = Pow2(t.depth)

StructOK ==
    /\ phase \in {"loop", "ext", "unwind", "turned"} =>
          /\ TreeOK(main) /\ main.lo <= 0 /\ 0 <= main.hi /\ main.main
    /\ \A k \in 1..Len(stk) :
          /\ TreeOK(stk[k].self)
          /\ stk[k].other # None =>
                /\ TreeOK(stk[k].other)
                /\ stk[k].other.depth <= stk[k].self.depth
                \* adjacent in the direction of travel
                /\ IF dir = 1 THEN stk[k].other.lo = stk[k].self.hi + 1
                               ELSE stk[k].other.hi = stk[k].self.lo - 1
          /\ k > 1 => stk[k].self = stk[k - 1].other

\* C03: the statistics of a finished draw.
DoneOK ==
    (phase = "done" /\ ~res.err) =>
       /\ res.depth <= cfg.maxd + cfg.extra
       /\ cfg.extra = 0 => res.depth <= cfg.maxd
       \* "depth <= maxdepth" is about the *configured* maxdepth: the per-trajectory bound derived from
       \* target_integration_time may be smaller, never larger
       /\ cfg.extra = 0 => res.depth <= cfg.cfgMaxd
       /\ Pow2(res.depth) - 1 <= nleap
       \* (a rejected extension before an extra doubling adds leapfrogs that no
       \* depth accounts for; the bound is stated for extra_doublings = 0)
       /\ cfg.extra = 0 => nleap <= Pow2(res.depth + 1) - 1
       /\ res.idx >= -(Pow2(res.depth) - 1) /\ res.idx <= Pow2(res.depth) - 1
       /\ res.lo <= res.idx /\ res.idx <= res.hi
       /\ res.hi - res.lo + 1 = Pow2(res.depth)
       \* the draw is the start or a state a successful leapfrog reached,
       \* outside every discarded sub-trajectory
       /\ visited[1] <= res.idx /\ res.idx <= visited[2]
       \* (an extra doubling deliberately re-integrates a rejected extension)
       /\ cfg.extra = 0 => ~InSpans(res.idx, rejected)
       \* the maxdepth flag is set exactly when maxdepth was the only reason
       /\ res.maxd <=> (res.why = "maxdepth")
       /\ res.maxd => (~res.div /\ res.depth >= cfg.maxd)
       /\ res.div <=> (res.why \in {"div", "extra_div"})
       \* an unforced stop happens only by U-turn, divergence or a trivial model
       /\ res.why \in {"turn", "div", "extra_div", "maxdepth", "dim0"}

\* C03: at least one leapfrog whenever the configured maxdepth >= 1 and the
\* model has parameters.
StepsOK ==
    (phase = "done" /\ ~res.err /\ cfg.dim > 0 /\ cfg.cfgMaxd >= 1) => nleap >= 1

\* A U-turn stop never happens below mindepth (checks are off there).
MindepthOK ==
    (phase = "done" /\ ~res.err /\ res.why = "turn") => res.depth >= cfg.mind
=============================================================================
