CONSTANTS
  Dims = {1, 2, 3, 5}
  Sizes = {3, 4, 7}
  Exps <- ExpsQuick
  Mus <- MusQuick
  Patterns <- PatsQuick
  LowRankDims = {2, 3, 6}
  Ranks = {0, 1, 2}
  Splits = {0, 2}
SPECIFICATION Spec
CHECK_DEADLOCK FALSE
