------------------------- MODULE StepSizeSearchInd -------------------------
(***************************************************************************)
(* The search automaton of StepSizeSearch.tla without its history          *)
(* variable, typed for Apalache, with an inductive invariant that gives    *)
(* the bracketing property for EVERY number of allowed probes (TLC checks  *)
(* it for MaxTries <= 100).  The history is summarised by three scalars:   *)
(*   lastCross  the last ok probe was on the far side / hit the guard      *)
(*   allNear    every earlier ok probe was on the near side, guard quiet   *)
(*   lastK      exponent of the last ok probe                              *)
(* apalache-mc check --init=IndInit --inv=IndInv --length=1 (step),        *)
(* apalache-mc check --init=Init --inv=IndInv --length=0 (base),           *)
(* IndInv => Bracket by --init=IndInit --inv=Bracket --length=0.           *)
(***************************************************************************)
EXTENDS Integers

CONSTANT
    \* @type: Int;
    MaxTries

VARIABLES
    \* @type: Str;
    phase,
    \* @type: Str;
    dir,
    \* @type: Int;
    k,
    \* @type: Int;
    n,
    \* @type: Str;
    outcome,
    \* @type: Int;
    finalK,
    \* @type: Int;
    estK,
    \* @type: Bool;
    lastCross,
    \* @type: Bool;
    allNear,
    \* @type: Int;
    lastK,
    \* @type: Int;
    nOk

NoEst == -100000
Sides == {"above", "equal", "below"}
Results == {"ok", "div", "err"}
Phases == {"idle", "first", "loop", "done"}
Outcomes == {"none", "found", "fallback", "first_failed", "exhausted", "error", "fixed"}

ConstInit == MaxTries \in Nat /\ MaxTries >= 1 /\ MaxTries < 50000

Init ==
    /\ phase = "idle" /\ dir = "none" /\ k = 0 /\ n = 0
    /\ outcome = "none" /\ finalK = 0 /\ estK = NoEst
    /\ lastCross = FALSE /\ allNear = TRUE /\ lastK = 0 /\ nOk = 0

Begin ==
    /\ phase \in {"idle", "done"}
    /\ phase' = "first" /\ dir' = "none" /\ k' = 0 /\ n' = 0
    /\ outcome' = "none" /\ finalK' = 0 /\ estK' = NoEst
    /\ lastCross' = FALSE /\ allNear' = TRUE /\ lastK' = 0 /\ nOk' = 0

Finish(o, fk, ek) == phase' = "done" /\ outcome' = o /\ finalK' = fk /\ estK' = ek

First(res, side) ==
    /\ phase = "first"
    /\ IF res = "err" THEN Finish("error", 0, NoEst) /\ UNCHANGED <<dir, k, n, lastCross, allNear, lastK, nOk>>
       ELSE IF res = "div" THEN Finish("first_failed", 0, NoEst) /\ UNCHANGED <<dir, k, n, lastCross, allNear, lastK, nOk>>
       ELSE /\ phase' = "loop"
            /\ dir' = IF side = "above" THEN "F" ELSE "B"
            /\ UNCHANGED <<k, n, outcome, finalK, estK, lastCross, allNear, lastK, nOk>>

Crossed(d, side) == IF d = "F" THEN side # "above" ELSE side # "below"

Try(res, side, ext) ==
    /\ phase = "loop" /\ n < MaxTries
    /\ n' = n + 1
    /\ IF res = "err" THEN Finish("error", 0, NoEst) /\ UNCHANGED <<dir, k, lastCross, allNear, lastK, nOk>>
       ELSE IF res = "div" THEN Finish("fallback", 0, NoEst) /\ UNCHANGED <<dir, k, lastCross, allNear, lastK, nOk>>
       ELSE /\ lastK' = k /\ nOk' = nOk + 1
            /\ allNear' = (allNear /\ (nOk = 0 \/ ~lastCross))
            /\ lastCross' = (Crossed(dir, side) \/ ext)
            /\ IF Crossed(dir, side) \/ ext
               THEN Finish("found", k, k) /\ UNCHANGED <<dir, k>>
               ELSE /\ k' = IF dir = "F" THEN k + 1 ELSE k - 1
                    /\ UNCHANGED <<phase, dir, outcome, finalK, estK>>

Exhaust ==
    /\ phase = "loop" /\ n = MaxTries
    /\ Finish("exhausted", 0, NoEst)
    /\ UNCHANGED <<dir, k, n, lastCross, allNear, lastK, nOk>>

Next ==
    \/ Begin
    \/ \E res \in Results, side \in Sides : First(res, side)
    \/ \E res \in Results, side \in Sides, ext \in BOOLEAN : Try(res, side, ext)
    \/ Exhaust

\* the bracketing property, on the summary
Bracket ==
    outcome = "found" =>
        /\ nOk >= 1 /\ finalK = lastK /\ estK = finalK /\ lastCross /\ allNear
        /\ lastK = (IF dir = "F" THEN nOk - 1 ELSE 1 - nOk)
FallbackIsInitial == (phase = "done" /\ outcome # "found") => (finalK = 0 /\ estK = NoEst)

InRange(x) == x \in Int /\ -MaxTries <= x /\ x <= MaxTries
TypeOK ==
    /\ phase \in Phases /\ dir \in {"none", "F", "B"} /\ outcome \in Outcomes
    /\ n \in Int /\ 0 <= n /\ n <= MaxTries /\ nOk \in Int /\ 0 <= nOk /\ nOk <= MaxTries
    /\ InRange(k) /\ InRange(lastK) /\ InRange(finalK)
    /\ (InRange(estK) \/ estK = NoEst)
    /\ lastCross \in BOOLEAN /\ allNear \in BOOLEAN

\* inductive invariant
IndInv ==
    /\ TypeOK
    /\ phase \in {"idle", "first"} => (n = 0 /\ nOk = 0 /\ k = 0 /\ outcome = "none" /\ allNear /\ ~lastCross)
    /\ phase = "loop" =>
          /\ dir \in {"F", "B"} /\ outcome = "none" /\ nOk = n /\ allNear /\ (nOk >= 1 => ~lastCross)
          /\ k = (IF dir = "F" THEN n ELSE -n)
          /\ nOk >= 1 => lastK = (IF dir = "F" THEN n - 1 ELSE 1 - n)
    /\ phase = "done" => outcome # "none"
    /\ phase # "done" => outcome = "none"
    /\ Bracket /\ FallbackIsInitial
    /\ outcome = "found" => (dir \in {"F", "B"} /\ phase = "done")

IndInit == IndInv
=============================================================================
