--------------------------- MODULE FaultSemantics ---------------------------
(***************************************************************************)
(* C05: what a chain's API calls may return when the log-density           *)
(* misbehaves at given evaluations.  One chain, sequential:                *)
(*                                                                         *)
(*   SetPosition(res, F)    F = set of <<phase, kind>> of the faults that  *)
(*   Draw(res, div, fin, F)     fired during the call                      *)
(*                                                                         *)
(* Phases of an evaluation:                                                *)
(*   "init"          evaluations of set_position outside the step-size     *)
(*                   search (initial point, search start, final point)     *)
(*   "search_step"   a leapfrog of the initial step-size search            *)
(*   "traj"          a leapfrog of a NUTS trajectory                       *)
(*   "research_init" the start evaluation of the search that is re-run     *)
(*                   after the first transformation change                 *)
(*   "research_step" a leapfrog of that re-run                             *)
(* Kinds: "fatal" (unrecoverable error) and the non-fatal ones.            *)
(*                                                                         *)
(* The rules are the sentences of the property:                            *)
(*  R1  no call panics                                                     *)
(*  R2  an unrecoverable error at any evaluation makes the call that       *)
(*      triggered it return Err                                            *)
(*  R3  a non-fatal fault at a trajectory evaluation: the call returns Ok, *)
(*      the transition is reported divergent, the returned draw has finite *)
(*      position and log-density                                           *)
(*  R4  a non-fatal fault during a step-size search (either run) only      *)
(*      discards that trial: the call still returns Ok                     *)
(*  R5  after the sampler accepted a position (set_position returned Ok),  *)
(*      every draw that returns Ok has finite position and log-density     *)
(*      (and, harness side: finite step size, acceptance statistics and    *)
(*      energy, at least one integration step) -                           *)
(*      also when the fault hit the initialisation ("no invalid draws      *)
(*      afterwards")                                                       *)
(*  R6  a draw during which nothing misbehaved returns Ok                  *)
(* For initialisation faults the property only demands Ok or Err (R1, R2)  *)
(* and R5.                                                                 *)
(***************************************************************************)
EXTENDS Integers, FiniteSets, Sequences

NonFatal == {"rec", "nanlogp", "posinf", "neginf", "nangrad", "infgrad", "huge"}
Kinds == NonFatal \cup {"fatal"}
Phases == {"init", "search_step", "traj", "research_init", "research_step"}

VARIABLES mode,     \* "fresh" / "retry" (initialisation failed, may be tried again) / "ready" / "dead"
          lastCall  \* record of the last call, for the invariants

fvars == <<mode, lastCall>>

FInit == mode = "fresh" /\ lastCall = [call |-> "none"]

HasFatal(F) == \E f \in F : f[2] = "fatal"
Only(F, phases) == \A f \in F : f[1] \in phases

\* ------------------------------------------------------------------------
\* What outcome the rules allow for a call during which the faults F fired.
SetPosAllowed(res, F) ==
    /\ res \in {"ok", "err"}                                    \* R1
    /\ HasFatal(F) => res = "err"                               \* R2
    /\ (F # {} /\ ~HasFatal(F) /\ Only(F, {"search_step"})) => res = "ok"   \* R4
    /\ F = {} => res = "ok"

DrawAllowed(res, div, fin, F) ==
    /\ res \in {"ok", "err"}                                    \* R1
    /\ HasFatal(F) => res = "err"                               \* R2
    /\ (~HasFatal(F) /\ F # {} /\ Only(F, {"traj", "research_step"})) => res = "ok"   \* R3, R4
    /\ (~HasFatal(F) /\ \E f \in F : f[1] = "traj") => (res = "ok" => div)            \* R3
    \* (a non-fatal fault at the *start* evaluation of the re-run search is not a trial step;
    \* like an initialisation fault it may end the call with Ok or Err)
    /\ res = "ok" => fin                                        \* R3, R5
    /\ F = {} => res = "ok"                                     \* R6

\* (a failed initialisation may be retried on the same chain object - the parallel sampler does so up to
\* 500 times - and the retry is judged like a first attempt: whatever the failed attempt left behind must
\* not make a later call misbehave)
SetPosition(res, F) ==
    /\ mode \in {"fresh", "retry"}
    /\ SetPosAllowed(res, F)
    /\ mode' = IF res = "ok" THEN "ready" ELSE "retry"
    /\ lastCall' = [call |-> "setpos", res |-> res, F |-> F]

Draw(res, div, fin, F) ==
    /\ mode = "ready"
    /\ DrawAllowed(res, div, fin, F)
    /\ mode' = IF res = "ok" THEN "ready" ELSE "dead"
    /\ lastCall' = [call |-> "draw", res |-> res, div |-> div, fin |-> fin, F |-> F]

\* ---- consistency of the rule set (checked by TLC over all fault sets of size <= 2)
AllFaults == Phases \X Kinds
FaultPairs == {{}} \cup {{a} : a \in AllFaults} \cup {{a, b} : a \in AllFaults, b \in AllFaults}
\* every situation has at least one allowed outcome, and when a fatal fault is
\* present the only allowed result is Err
Total ==
    /\ \A F \in {G \in FaultPairs : Only(G, {"init", "search_step"})} :
          \E res \in {"ok", "err"} : SetPosAllowed(res, F)
    /\ \A F \in {G \in FaultPairs : Only(G, {"traj", "research_init", "research_step"})} :
          \E res \in {"ok", "err"}, div \in BOOLEAN, fin \in BOOLEAN : DrawAllowed(res, div, fin, F)
FatalForcesErr ==
    \A F \in FaultPairs : HasFatal(F) =>
        /\ ~SetPosAllowed("ok", F)
        /\ \A div \in BOOLEAN, fin \in BOOLEAN : ~DrawAllowed("ok", div, fin, F)
=============================================================================
