SPECIFICATION TSpec
INVARIANTS StructOK DoneOK StepsOK MindepthOK
POSTCONDITION Accepted
CHECK_DEADLOCK FALSE
