CONSTANTS
  MaxDepth = 2
  Weights = {1, 2}
  Family = "apex"
  ApexMax = 1
SPECIFICATION Spec
INVARIANTS InvDetailedBalance InvStochastic InvMirror
CHECK_DEADLOCK FALSE
