CONSTANTS
  Weights = {1, 2}
  Configs <- ConfigsQuick
  AllowDiv = TRUE
  AllowErr = TRUE
  Emit = TRUE
SPECIFICATION MCSpec
INVARIANTS StructOK DoneOK StepsOK MindepthOK EmitReplay
CHECK_DEADLOCK FALSE
