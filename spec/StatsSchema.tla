----------------------------- MODULE StatsSchema -----------------------------
(***************************************************************************)
(* C16: the per-draw statistics record against its declared schema.        *)
(*                                                                         *)
(* schema  = [names, types, lens, ev] (sequences of equal length; lens[k]  *)
(*           is the product of the sizes of the declared dimensions,       *)
(*           ev[k] the event dimension or "")                              *)
(* A draw  = sequence of [name, present, t, n] plus the facts              *)
(*           diverging (statistic `diverging`), changed (the transformation *)
(*           id after this draw's adaptation differs from the last id the  *)
(*           chain reported; taken from the adaptation hook, not from the  *)
(*           statistic itself), draw counter, chain id.                    *)
(***************************************************************************)
EXTENDS Integers, Sequences, FiniteSets

VARIABLES schema,
          pres,     \* per field: "unknown" / "yes" / "no" - presence pattern of non-event fields
          counter,  \* last draw counter seen (-1 = none)
          chain     \* chain id (-1 = none)

qvars == <<schema, pres, counter, chain>>

EmptySchema == [names |-> <<>>, types |-> <<>>, lens |-> <<>>, ev |-> <<>>]
QInit == schema = EmptySchema /\ pres = <<>> /\ counter = -1 /\ chain = -1

Start(s) ==
    /\ Len(s.types) = Len(s.names) /\ Len(s.lens) = Len(s.names) /\ Len(s.ev) = Len(s.names)
    /\ schema' = s
    /\ pres' = [k \in 1..Len(s.names) |-> "unknown"]
    /\ counter' = -1 /\ chain' = -1

\* identifying fields of the two events
Ident == {"divergence_draw", "divergence_message", "transformation_update_id"}

FieldOK(k, f, diverging, changed) ==
    /\ f.name = schema.names[k]
    \* a present value has the declared type and the length of its declared dimensions
    /\ f.present => (f.t = schema.types[k] /\ f.n = schema.lens[k])
    /\ CASE schema.ev[k] = "divergence" ->
              /\ f.present => diverging
              /\ (diverging /\ f.name \in Ident) => f.present
         [] schema.ev[k] = "transformation_update" ->
              /\ f.present => changed
              /\ (changed /\ f.name \in Ident) => f.present
         [] OTHER ->
              \* present on every draw or on none
              /\ pres[k] = "yes" => f.present
              /\ pres[k] = "no" => ~f.present

Draw(st, diverging, changed, ctr, ch) ==
    /\ Len(st) = Len(schema.names)
    /\ \A k \in 1..Len(st) : FieldOK(k, st[k], diverging, changed)
    /\ pres' = [k \in 1..Len(st) |->
                  IF schema.ev[k] # "" THEN pres[k]
                  ELSE IF st[k].present THEN "yes" ELSE "no"]
    \* draw counters increase by one per draw, chain ids are constant
    /\ counter = -1 \/ ctr = counter + 1
    /\ chain = -1 \/ ch = chain
    /\ counter' = ctr /\ chain' = ch
    /\ UNCHANGED schema
==============================================================================
