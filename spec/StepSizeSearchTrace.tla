------------------------ MODULE StepSizeSearchTrace ------------------------
(***************************************************************************)
(* Trace validation of the step-size search: the hook events of            *)
(* StepSizeStrategy::init of real chains (initial search and the re-run    *)
(* after the first transformation change), projected to                    *)
(*   start  [fixed]                                                        *)
(*   try    [n, dir, res, side, kexp, hi, lo]                        *)
(*   end    [outcome, kexp, est]                                           *)
(* kexp is the exact power-of-two exponent of step / initial (null if the  *)
(* step is not initial * 2^k bit for bit), est says what the estimator's   *)
(* step size is equal to after the search ("final" / "unchanged" / "both" /  *)
(* "none"; "unchanged" = bit-identical to its value before the search).                                                                *)
(***************************************************************************)
EXTENDS StepSizeSearch, TLC, Json, IOUtils

Rec == ndJsonDeserialize(IOEnv.TRACE)
VARIABLE l
tvars == <<ssvars, l>>
R == Rec[l]
IsEvent(e) == l <= Len(Rec) /\ Rec[l].e = e /\ l' = l + 1

TInit == l = 1 /\ SSInit

\* a new chain (the previous one may have died inside a search, e.g. with an error before the first probe)
TrReset ==
    /\ IsEvent("reset")
    /\ phase' = "idle" /\ dir' = "none" /\ k' = 0 /\ n' = 0
    /\ outcome' = "none" /\ finalK' = 0 /\ estK' = NoEst /\ hist' = <<>>

TrStart ==
    /\ IsEvent("start")
    /\ phase \in {"idle", "done"}
    /\ Begin

TrFixed ==
    /\ IsEvent("end") /\ R.outcome = "fixed"
    /\ phase \in {"idle", "done"}
    /\ R.kexp = 0
    /\ Fixed

Ext == IF R.dir = "F" THEN R.hi ELSE R.lo

TrFirst ==
    /\ IsEvent("try")
    /\ R.n = 0 /\ R.dir = "F" /\ R.kexp = 0
    /\ R.accok                             \* acceptance = min(1, exp(E0 - E)) of the probe's leapfrog (harness side)
    /\ First(R.res, R.side)

TrTry ==
    /\ IsEvent("try")
    /\ phase = "loop"
    /\ R.n = n + 1 /\ R.dir = dir
    /\ R.kexp = k                          \* the probe ran at initial * 2^k
    /\ R.accok
    /\ Try(R.res, R.side, Ext)

\* the return of init(): the outcome the spec reached is the one the code reports, the step size
\* installed and the estimator's step size are the ones the spec says
TrEnd ==
    /\ IsEvent("end") /\ R.outcome # "fixed"
    /\ IF phase = "loop" /\ n = MaxTries
       THEN Exhaust
       ELSE phase = "done" /\ UNCHANGED ssvars
    /\ outcome' = R.outcome
    /\ finalK' = R.kexp
    /\ IF estK' = NoEst THEN R.est \in {"unchanged", "both"} ELSE R.est \in {"final", "both"}

\* (an Err return of init() emits no end event: the next line is the start of another search)

TNext == TrReset \/ TrStart \/ TrFixed \/ TrFirst \/ TrTry \/ TrEnd
TSpec == TInit /\ [][TNext]_tvars

Accepted ==
    LET d == TLCGet("stats").diameter
    IN IF d - 1 = Len(Rec) THEN TRUE
       ELSE Print(<<"TRACE-REJECTED at line", d, Rec[d]>>, FALSE)
============================================================================
