SPECIFICATION RSpec
INVARIANTS Accumulate SameFinal StructOK DoneOK
POSTCONDITION RefinesKernel
CHECK_DEADLOCK FALSE
