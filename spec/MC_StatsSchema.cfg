SPECIFICATION MCSpec
INVARIANT Live
CHECK_DEADLOCK FALSE
