--------------------------- MODULE MC_NutsRefine ---------------------------
(***************************************************************************)
(* Refinement link for C01: on complete orbits, the operational NutsTree   *)
(* (the spec the implementation is bound to by replay and trace            *)
(* validation) induces exactly the transition kernel K of NutsKernel (the  *)
(* spec on which detailed balance is checked).                             *)
(*                                                                         *)
(* TLC explores every behaviour of NutsTree over each orbit of OrbitsData  *)
(* (directions and accept decisions are the only nondeterminism), carries  *)
(* the exact path probability, accumulates it per (orbit, draw, depth) in  *)
(* a TLCSet register and compares with K in a POSTCONDITION.               *)
(* Needs -workers 1 (registers are per worker).                            *)
(***************************************************************************)
EXTENDS NutsTree, TLC, Rat, OrbitsData

NK == INSTANCE NutsKernel WITH MaxDepth <- MaxDepth

VARIABLES oid, prob, script

rvars == <<vars, oid, prob, script>>

N == Len(Orbits)
TheOrbit == Orbits[oid]

ZeroAcc == [o \in 1..N |-> [b \in NK!Idx |-> RZero]]

AccProb == IF Top.self.main
           THEN IF Top.other.w >= Top.self.w THEN ROne
                ELSE RNorm(Top.other.w, Top.self.w)
           ELSE RNorm(Top.other.w, Top.self.w + Top.other.w)

RInit == /\ Init
         /\ oid \in 1..N
         /\ prob = ROne /\ script = <<>>
         /\ TLCSet(1, ZeroAcc)

TheCfg == [mind |-> 0, maxd |-> MaxDepth, cfgMaxd |-> MaxDepth, extra |-> 0,
           check |-> TRUE, dim |-> 1]

Ordered(i, j) == IF i < j THEN <<i, j>> ELSE <<j, i>>

RNext ==
    \/ /\ TrajInit(TheCfg, TheOrbit.w[0], 0)
       /\ UNCHANGED <<oid, prob, script>>
    \/ \E d \in {1, -1} :
          /\ ChooseDir(d)
          /\ prob' = RMul(prob, RHalf)
          /\ script' = Append(script, d)
          /\ UNCHANGED oid
    \/ /\ phase = "ext" /\ Top.other = None
       /\ Leap("ok", TheOrbit.w[LeapStart + dir], LeapStart + dir)
       /\ UNCHANGED <<oid, prob, script>>
    \/ /\ ReadyToJoin /\ ~ChecksDone
       /\ TurnCheck(ExpectedPair[1], ExpectedPair[2], ExpectedPair[3],
                    TheOrbit.turn[Ordered(ExpectedPair[2], ExpectedPair[3])])
       /\ UNCHANGED <<oid, prob, script>>
    \/ \E acc \in BOOLEAN :
          /\ ReadyToJoin /\ ChecksDone
          /\ (AccProb = ROne => acc)
          /\ Merge(acc)
          /\ prob' = RMul(prob, IF acc THEN AccProb ELSE RSub(ROne, AccProb))
          /\ script' = Append(script, IF acc THEN 2 ELSE 3)
          /\ UNCHANGED oid
    \/ /\ phase = "unwind" /\ SubRej(pend, Top.self.depth)
       /\ UNCHANGED <<oid, prob, script>>
    \/ /\ ReturnTurn /\ UNCHANGED <<oid, prob, script>>
    \/ /\ ReturnMaxdepth /\ UNCHANGED <<oid, prob, script>>

RSpec == RInit /\ [][RNext]_rvars

\* Evaluated on every state; adds each terminal state's probability once
\* (terminal states are distinct because `script` is part of the state).
Accumulate ==
    (phase = "done") =>
        TLCSet(1, [TLCGet(1) EXCEPT ![oid][res.idx] = RAdd(@, prob)])

RefinesKernel ==
    \A o \in 1..N : \A b \in NK!Starts :
        TLCGet(1)[o][b] = NK!K(Orbits[o], 0, b)

\* The final trajectory and depth of every behaviour equal the denotational ones
\* for the same direction choices.
DirsOf(s) == SelectSeq(s, LAMBDA x : x \in {1, -1})
SameFinal ==
    (phase = "done") =>
        LET ds == DirsOf(script)
            full == [j \in 1..MaxDepth |-> IF j <= Len(ds) THEN ds[j] ELSE 1]
            f == NK!Final(TheOrbit, 0, full)
        IN f.lo = res.lo /\ f.hi = res.hi /\ f.depth = res.depth
===========================================================================
