CONSTANT MaxTries = 6
SPECIFICATION SSSpec
INVARIANT SearchInv
CHECK_DEADLOCK FALSE
