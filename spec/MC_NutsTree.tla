---------------------------- MODULE MC_NutsTree ----------------------------
(* Exhaustive / simulated exploration of NutsTree with lazily chosen orbit  *)
(* facts, plus emission of each complete behaviour as a replay script for   *)
(* the real tree builder.                                                   *)
EXTENDS NutsTree, TLC, Json, Rat

CONSTANTS Weights,        \* admissible integer point weights
          Configs,        \* set of cfg records
          AllowDiv,       \* BOOLEAN: explore divergent leapfrogs
          AllowErr,       \* BOOLEAN: explore unrecoverable errors
          Emit            \* BOOLEAN: print replay scripts at terminal states

VARIABLE hist             \* event list of this behaviour (replay script)

mcvars == <<vars, hist>>

\* Acceptance in merge_into: main tree -> biased progressive sampling,
\* sub-tree -> uniform progressive sampling.
AccProb == IF Top.self.main
           THEN IF Top.other.w >= Top.self.w THEN ROne
                ELSE RNorm(Top.other.w, Top.self.w)
           ELSE RNorm(Top.other.w, Top.self.w + Top.other.w)
AccChoices == IF AccProb = ROne THEN {TRUE} ELSE BOOLEAN

Kinds == {"ok"} \cup (IF AllowDiv THEN {"div"} ELSE {}) \cup (IF AllowErr THEN {"err"} ELSE {})

Cfg(mind, maxd, extra, check, dim) ==
    [mind |-> mind, maxd |-> maxd, cfgMaxd |-> maxd, extra |-> extra, check |-> check, dim |-> dim]
ConfigsQuick == {Cfg(0, 2, 0, TRUE, 1), Cfg(1, 2, 0, TRUE, 1), Cfg(0, 1, 1, TRUE, 1),
                 Cfg(0, 2, 0, TRUE, 0), Cfg(0, 0, 0, TRUE, 1)}
ConfigsDefault3 == {Cfg(0, 3, 0, TRUE, 1)}
ConfigsDefault2 == {Cfg(0, 2, 0, TRUE, 1)}
ConfigsSim == {Cfg(0, 5, 0, TRUE, 1), Cfg(0, 4, 0, TRUE, 3), Cfg(1, 5, 1, TRUE, 2), Cfg(2, 4, 0, TRUE, 1)}
ConfigsWide == {Cfg(mi, ma, ex, ch, 1) : mi \in 0..2, ma \in 0..3, ex \in 0..1, ch \in BOOLEAN}
                  \cup {Cfg(0, 2, 0, TRUE, 0)}

MCInit == Init /\ hist = <<>>

MCNext ==
    \/ \E c \in Configs, w0 \in {1} :
          /\ TrajInit(c, w0, 0)
          /\ hist' = <<[e |-> "init", mind |-> c.mind, maxd |-> c.maxd,
                        extra |-> c.extra, check |-> c.check, dim |-> c.dim]>>
    \/ \E d \in {1, -1} :
          /\ ChooseDir(d)
          /\ hist' = Append(hist, [e |-> "dir", d |-> d])
    \/ \E k \in Kinds, w \in Weights :
          /\ (k # "ok" => w = 1)
          /\ Leap(k, w, LeapStart + dir)
          /\ hist' = Append(hist, [e |-> "leap", start |-> LeapStart, d |-> dir,
                                   res |-> k, w |-> w])
    \/ \E b \in BOOLEAN :
          /\ ReadyToJoin /\ ~ChecksDone
          /\ TurnCheck(ExpectedPair[1], ExpectedPair[2], ExpectedPair[3], b)
          /\ hist' = Append(hist, [e |-> "turn", k |-> ExpectedPair[1],
                                   i |-> ExpectedPair[2], j |-> ExpectedPair[3], b |-> b])
    \/ \E acc \in BOOLEAN :
          /\ ReadyToJoin /\ ChecksDone
          /\ acc \in AccChoices
          /\ Merge(acc)
          /\ hist' = Append(hist, [e |-> "merge", main |-> Top.self.main, acc |-> acc,
                                   pn |-> AccProb[1], pd |-> AccProb[2],
                                   depth |-> Top.self.depth,
                                   lo |-> MergedLo, hi |-> MergedHi,
                                   draw |-> Merged(acc).draw])
          \* the identity carried with the draw is the draw
          /\ Merged(acc).tag = Merged(acc).draw
    \/ \E why \in {"turn", "div"} :
          /\ phase = "unwind"
          /\ SubRej(why, Top.self.depth)
          /\ hist' = Append(hist, [e |-> "sub_rej", why |-> why, depth |-> Top.self.depth])
    \/ /\ Extra
       /\ hist' = Append(hist, [e |-> "extra", depth |-> main.depth])
    \/ /\ ReturnTurn /\ UNCHANGED hist
    \/ /\ ReturnMaxdepth /\ UNCHANGED hist

MCSpec == MCInit /\ [][MCNext]_mcvars

\* One line per complete behaviour; read by `vh replay-nuts`.
EmitReplay ==
    (Emit /\ phase = "done") =>
        PrintT(<<"REPLAY", ToJson([events |-> hist, res |-> res, nleap |-> nleap])>>)

\* Vacuity guards (violated on purpose in a separate config to show that
\* the interesting situations are reachable).
NeverSubRejTurn == ~(phase = "unwind" /\ pend = "turn")
NeverDeepDraw == ~(phase = "done" /\ ~res.err /\ res.depth >= 2 /\ res.idx < -1)
=============================================================================
