--------------------------- MODULE MassMatrixGauss ---------------------------
(***************************************************************************)
(* C08, first sentence: for a Gaussian target the estimators recover the   *)
(* target from *any* window of at least three distinct draws - the         *)
(* recovery is algebraic, not statistical:                                 *)
(*   x_j = mu + sigma z_j,  gradient_j = -z_j / sigma                      *)
(*   var(x) = sigma^2 V,  var(grad) = V / sigma^2                          *)
(*   sqrt(var(x) / var(grad)) = sigma^2,  mean(x) + sigma^2 mean(grad) = mu*)
(* whatever the placement z.  This module enumerates windows (size,        *)
(* placement pattern, per-coordinate scale 2^e and mean) and states the    *)
(* expected scale exactly: 2^e.  With mean 0 the floating-point            *)
(* computation is exact as well (scaling by a power of two commutes with   *)
(* every operation of the running-variance update), so the comparison is   *)
(* bit for bit; with a non-zero mean it is to rounding of the inputs.      *)
(* For the low-rank estimator the window must span the space (n >= d + 2). *)
(* A window switch in the middle of the feed (foreground := background,    *)
(* fresh background) must not change any of this: after it the foreground  *)
(* still holds every draw, the background only the later ones.             *)
(***************************************************************************)
EXTENDS Integers, Sequences, TLC, Json

CONSTANTS Dims, Sizes, Exps, Mus, Patterns, LowRankDims, Ranks,
          Splits   \* a window switch after this many draws (0 = none): the estimate must not depend on it

\* placement of draw j on coordinate i: pattern rotated by the coordinate index, scaled by i
Z(pat, n, i, j) == pat[((j + i - 2) % Len(pat)) + 1] * (IF i % 2 = 0 THEN -1 ELSE 1) + (IF j = i THEN 1 ELSE 0)

DiagCases ==
    {[kind |-> "gauss_diag", d |-> d, n |-> n, e |-> e, mu |-> mu, pat |-> p, split |-> sp,
      z |-> [j \in 1..n |-> [i \in 1..d |-> Z(p, n, i, j)]],
      \* the specification's answer: scale exponent per coordinate, mean per coordinate
      want_e |-> [i \in 1..d |-> e[((i - 1) % Len(e)) + 1]],
      want_mu |-> [i \in 1..d |-> mu[((i - 1) % Len(mu)) + 1]]] :
        d \in Dims, n \in Sizes, e \in Exps, mu \in Mus, p \in Patterns, sp \in Splits}

\* at least three distinct draws, and no coordinate constant
Usable(c) ==
    /\ \E j1, j2, j3 \in 1..c.n : c.z[j1] # c.z[j2] /\ c.z[j2] # c.z[j3] /\ c.z[j1] # c.z[j3]
    /\ \A i \in 1..c.d : \E j1, j2 \in 1..c.n : c.z[j1][i] # c.z[j2][i]

\* corr = "lr": identity plus a rank-r term, estimator run with an eigenvalue cut-off just above 1 (nothing is
\* cut); corr = "equi": equicorrelated with rho = 4/5 or 9/10, estimator run with its DEFAULT cut-off 2 - every
\* eigenvalue of the rescaled covariance (1 + (d-1) rho and 1 - rho, d >= 3) lies outside [1/2, 2], so nothing may be cut
LowRankCases ==
    {[kind |-> "gauss_lowrank", d |-> d, n |-> d + extra, rank |-> r, e |-> e, mu |-> mu, seed |-> s, corr |-> "lr"] :
        d \in LowRankDims, extra \in {2, 5}, r \in Ranks, e \in Exps, mu \in Mus, s \in 1..3}
    \cup
    {[kind |-> "gauss_lowrank", d |-> d, n |-> d + extra, rank |-> 0, e |-> e, mu |-> mu, seed |-> s, corr |-> "equi"] :
        d \in LowRankDims \ {2}, extra \in {2, 5}, e \in Exps, mu \in Mus, s \in 1..3}

\* evaluated once when TLC starts: one line per case
ASSUME \A c \in {x \in DiagCases : Usable(x)} : PrintT(<<"REPLAY", ToJson(c)>>)
ASSUME \A c2 \in {x2 \in LowRankCases : x2.rank < x2.d} : PrintT(<<"REPLAY", ToJson(c2)>>)

VARIABLE done
Init == done = FALSE
Next == done = FALSE /\ done' = TRUE
Spec == Init /\ [][Next]_done
=============================================================================
