------------------------------- MODULE Lattice -------------------------------
(***************************************************************************)
(* C02 (and the U-turn criterion of C01) on the exact lattice: dyadic      *)
(* rationals on which IEEE double arithmetic is exact, so that this        *)
(* specification is a bit-exact oracle for the implementation.             *)
(*                                                                         *)
(* Transformation  x = F(y) = mean + sigma * (L(s) y + mu)                 *)
(*                 L(s) = I + U (diag(s) - I) U'   (U orthonormal columns, *)
(*                 s = sqrt(lambda)); rank 0 = pure diagonal               *)
(* Whitened leapfrog (Euclidean kinetic energy), step eps (signed):        *)
(*     vh = v + eps/2 * gy(y);  y' = y + eps * vh;  v' = vh + eps/2 gy(y') *)
(*     gy = F' gx  (gradient pull-back)                                    *)
(***************************************************************************)
EXTENDS QRat

\* U' y  (one coefficient per column), columns are sequences
Proj(U, y) == [k \in 1..Len(U) |-> VDot(U[k], y)]
\* sum_k c_k U_k
RECURSIVE Comb(_, _, _, _)
Comb(U, c, n, k) == IF k = 0 THEN [i \in 1..n |-> <<0, 1>>]
                    ELSE VAdd(VScale(c[k], U[k]), Comb(U, c, n, k - 1))
\* L(s) y
LApply(U, s, y) ==
    IF Len(U) = 0 THEN y
    ELSE LET c == Proj(U, y)
             d == [k \in 1..Len(U) |-> QMul(QSub(s[k], <<1, 1>>), c[k])]
         IN VAdd(y, Comb(U, d, Len(y), Len(U)))
SInv(s) == [k \in 1..Len(s) |-> QDiv(<<1, 1>>, s[k])]

\* T = [sigma, mean, U, s, mu]
Fwd(T, y) == VAdd(T.mean, VMul(T.sigma, VAdd(LApply(T.U, T.s, y), T.mu)))
Inv(T, x) == LApply(T.U, SInv(T.s), VSub(VDivE(VSub(x, T.mean), T.sigma), T.mu))
PullBack(T, gx) == LApply(T.U, T.s, VMul(T.sigma, gx))

\* quadratic potential: logp(x) = -1/2 (x-m)' P (x-m), P symmetric (sequence of rows)
GradQ(P, m, x) == LET r == VSub(x, m) IN [i \in 1..Len(x) |-> QNeg(VDot(P[i], r))]
LogpQ(P, m, x) == LET r == VSub(x, m)
                      Pr == [i \in 1..Len(x) |-> VDot(P[i], r)]
                  IN QNeg(QHalf(VDot(r, Pr)))

\* one whitened leapfrog step
Leap(T, P, m, y, v, eps) ==
    LET gy0 == PullBack(T, GradQ(P, m, Fwd(T, y)))
        vh == VAdd(v, VScale(QHalf(eps), gy0))
        y1 == VAdd(y, VScale(eps, vh))
        x1 == Fwd(T, y1)
        gx1 == GradQ(P, m, x1)
        gy1 == PullBack(T, gx1)
        v1 == VAdd(vh, VScale(QHalf(eps), gy1))
    IN [y |-> y1, v |-> v1, x |-> x1, gx |-> gx1, gy |-> gy1,
        y0 |-> y, v0 |-> v]

\* energy change of a step (the log-determinant cancels); squares need twice the bits, so this is
\* evaluated only on the families whose values stay small
EnergyChange(P, m, T, a) ==
    QSub(QSub(QHalf(VDot(a.v, a.v)), LogpQ(P, m, a.x)),
         QSub(QHalf(VDot(a.v0, a.v0)), LogpQ(P, m, Fwd(T, a.y0))))

\* textbook leapfrog in the original space for H = -logp(x) + 1/2 p' Minv p, Minv = F F'
\* (diagonal case: Minv = diag(sigma^2); momentum p = v / sigma)
TextbookDiag(T, P, m, x, p, eps) ==
    LET minv == VMul(T.sigma, T.sigma)
        ph == VAdd(p, VScale(QHalf(eps), GradQ(P, m, x)))
        x1 == VAdd(x, VScale(eps, VMul(minv, ph)))
        p1 == VAdd(ph, VScale(QHalf(eps), GradQ(P, m, x1)))
    IN [x |-> x1, p |-> p1]

\* the U-turn criterion (start = smaller trajectory index)
IsTurning(ys, vs, ye, ve) ==
    LET d == VSub(ye, ys)
    IN QLt(VDot(d, vs), <<0, 1>>) \/ QLt(VDot(d, ve), <<0, 1>>)

\* --------------------------- properties (per case) ------------------------
Reversible(T, P, m, y, v, eps) ==
    LET a == Leap(T, P, m, y, v, eps)
        b == Leap(T, P, m, a.y, a.v, QNeg(eps))
    IN b.y = y /\ b.v = v
Bijective(T, y) == Inv(T, Fwd(T, y)) = y
IsTextbook(T, P, m, y, v, eps) ==       \* for rank 0
    LET a == Leap(T, P, m, y, v, eps)
        t == TextbookDiag(T, P, m, Fwd(T, y), VDivE(v, T.sigma), eps)
    IN a.x = t.x /\ VDivE(a.v, T.sigma) = t.p
==============================================================================
