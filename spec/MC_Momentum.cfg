CONSTANTS
  MaxWord = 10
  MaxCalls = 2
SPECIFICATION MCSpec
INVARIANT MomentumInv
CHECK_DEADLOCK FALSE
