CONSTANTS
  MaxTune = 9
  ExtraDraws = 2
SPECIFICATION MCSpec
INVARIANTS ScheduleInv
CHECK_DEADLOCK FALSE
