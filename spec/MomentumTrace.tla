--------------------------- MODULE MomentumTrace ---------------------------
(* Trace validation: the momentum / leapfrog / search / call-boundary events of real NUTS chains,  *)
(* each momentum located in the chain's random stream by the harness (bit-exact match of the        *)
(* standard-normal transform of the words with the velocity).                                       *)
EXTENDS Momentum, TLC, Json, IOUtils

Rec == ndJsonDeserialize(IOEnv.TRACE)
VARIABLE l
tvars == <<movars, l>>
R == Rec[l]
IsEvent(e) == l <= Len(Rec) /\ Rec[l].e = e /\ l' = l + 1

TInit == l = 1 /\ MoInit

TrReset == IsEvent("reset") /\ pos' = 0 /\ armed' = FALSE /\ used' = <<>> /\ calls' = 0

TrMomentum ==
    /\ IsEvent("momentum")
    /\ R.resample                      \* the velocity was redrawn, not carried over
    /\ R.ke_ok                         \* kinetic energy is 1/2 |v|^2: unit mass in the whitened space
    /\ IF R.dim = 0 THEN DrawNothing
       ELSE /\ R.found = "yes"         \* the velocity is the standard-normal transform of stream words, scale one
            /\ Draw(R.from, R.to, R.dim)

TrLeap == IsEvent("leap") /\ Leapfrog
TrSearch == IsEvent("search") /\ SearchBoundary
TrEnd == IsEvent("end") /\ EndCall

TNext == TrReset \/ TrMomentum \/ TrLeap \/ TrSearch \/ TrEnd
TSpec == TInit /\ [][TNext]_tvars

Accepted ==
    LET d == TLCGet("stats").diameter
    IN IF d - 1 = Len(Rec) THEN TRUE
       ELSE Print(<<"TRACE-REJECTED at line", d, Rec[d]>>, FALSE)
============================================================================
