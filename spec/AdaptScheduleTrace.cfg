SPECIFICATION TSpec
INVARIANTS ScheduleInv
POSTCONDITION Accepted
CHECK_DEADLOCK FALSE
