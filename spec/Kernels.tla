------------------------------- MODULE Kernels -------------------------------
(***************************************************************************)
(* C17: the vector kernels of the CPU backend as plain element-by-element  *)
(* formulas over integer sequences (exact lattice: all values are small    *)
(* integers or halves, on which IEEE double arithmetic is exact whatever   *)
(* the summation order, SIMD width or fusion), plus the IEEE special-value *)
(* algebra for one special value at a given position.                      *)
(* Scalars a are given as a2 = 2a (so a in {-2,-1/2,0,1/2,3}); results     *)
(* that involve a are scaled by 2.                                         *)
(***************************************************************************)
EXTENDS Integers, Sequences

RECURSIVE SumTo(_, _)
SumTo(f, n) == IF n = 0 THEN 0 ELSE f[n] + SumTo(f, n - 1)
Sum(f) == SumTo(f, Len(f))

Axpy2(x, y, a2) == [i \in 1..Len(x) |-> 2 * y[i] + a2 * x[i]]            \* 2 * (y + a x)
Mult(x, y) == [i \in 1..Len(x) |-> x[i] * y[i]]
Dot(x, y) == Sum(Mult(x, y))
Prods2(p1, p2, x, y) == <<Dot([i \in 1..Len(x) |-> p1[i] + p2[i]], x), Dot([i \in 1..Len(x) |-> p1[i] + p2[i]], y)>>
Prods3(p1, n1, p2, x, y) == <<Dot([i \in 1..Len(x) |-> p1[i] - n1[i] + p2[i]], x),
                              Dot([i \in 1..Len(x) |-> p1[i] - n1[i] + p2[i]], y)>>
SqNormSum(x, y) == Sum([i \in 1..Len(x) |-> (x[i] + y[i]) * (x[i] + y[i])])

\* ---- special values: class of a result when x[k] is special and everything else finite ----
\* classes: "fin", "nan", "pinf", "ninf"
Sgn(v) == IF v > 0 THEN 1 ELSE IF v < 0 THEN -1 ELSE 0
\* special * finite v
MulClass(sp, v) == CASE sp = "nan" -> "nan"
                     [] Sgn(v) = 0 -> "nan"
                     [] (sp = "pinf") = (Sgn(v) > 0) -> "pinf"
                     [] OTHER -> "ninf"
\* a sum with exactly one special term and finite others has the class of that term
DotClass(sp, yk) == MulClass(sp, yk)
\* y + a*x at the special position (a2 = 2a); a = 0 gives 0 * inf = nan
AxpyClass(sp, a2) == MulClass(sp, a2)
\* (x + y)^2
SqClass(sp) == IF sp = "nan" THEN "nan" ELSE "pinf"
\* ---- the finiteness tests, by class of the one unusual element (everything else normal, finite, non-zero) ----
\* "sub" is a subnormal number: finite and not zero
\* "huge" / "max": finite numbers whose square is not (1e200, the largest double)
TestClasses == {"sub", "negsub", "zero", "negzero", "huge", "max", "nan", "pinf", "ninf"}
AllFinite(cl) == cl \in {"sub", "negsub", "zero", "negzero", "huge", "max"}
AllFiniteNonzero(cl) == cl \in {"sub", "negsub", "huge", "max"}
==============================================================================
