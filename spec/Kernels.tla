------------------------------- MODULE Kernels -------------------------------
(***************************************************************************)
(* C17: the vector kernels of the CPU backend as plain element-by-element  *)
(* formulas over integer sequences (exact lattice: all values are small    *)
(* integers or halves, on which IEEE double arithmetic is exact whatever   *)
(* the summation order, SIMD width or fusion), plus the IEEE special-value *)
(* algebra for one special value at a given position.                      *)
(* Scalars a are given as a2 = 2a (so a in {-2,-1/2,0,1/2,3}); results     *)
(* that involve a are scaled by 2.                                         *)
(***************************************************************************)
EXTENDS Integers, Sequences

RECURSIVE SumTo(_, _)
SumTo(f, n) == IF n = 0 THEN 0 ELSE f[n] + SumTo(f, n - 1)
Sum(f) == SumTo(f, Len(f))

Axpy2(x, y, a2) == [i \in 1..Len(x) |-> 2 * y[i] + a2 * x[i]]            \* 2 * (y + a x)
Mult(x, y) == [i \in 1..Len(x) |-> x[i] * y[i]]
Dot(x, y) == Sum(Mult(x, y))
Prods2(p1, p2, x, y) == <<Dot([i \in 1..Len(x) |-> p1[i] + p2[i]], x), Dot([i \in 1..Len(x) |-> p1[i] + p2[i]], y)>>
Prods3(p1, n1, p2, x, y) == <<Dot([i \in 1..Len(x) |-> p1[i] - n1[i] + p2[i]], x),
                              Dot([i \in 1..Len(x) |-> p1[i] - n1[i] + p2[i]], y)>>
SqNormSum(x, y) == Sum([i \in 1..Len(x) |-> (x[i] + y[i]) * (x[i] + y[i])])

\* ---- harmonic flows (ExactNormal integrator) ----
\* gradient flow: vel + eps (pos + grad); eps given as e2 = 2 eps, result scaled by 2
GradFlow2(pos, grad, vel, e2) == [i \in 1..Len(pos) |-> 2 * vel[i] + e2 * (pos[i] + grad[i])]
\* rotation by eps with c = cos eps, s = sin eps: pos_out = pos c + vel s, vel' = -pos s + vel c.  c and s are not
\* rational; the formula is evaluated here for integer stand-ins (the harness evaluates it in floating point for the real
\* cos / sin and compares within 4 ulp of the two products), exact for eps = 0 (c = 1, s = 0)
FlowPos(pos, vel, c, s) == [i \in 1..Len(pos) |-> pos[i] * c + vel[i] * s]
FlowVel(pos, vel, c, s) == [i \in 1..Len(pos) |-> vel[i] * c - pos[i] * s]

\* ---- low-rank application  (I + U (diag(vals) - I) U^T) rhs ----
\* U with signed coordinate vectors as columns: cols[j] = <<index, sign>>; the sign cancels
LowRankPerm(cols, vals, rhs) ==
    [i \in 1..Len(rhs) |-> IF \E j \in 1..Len(cols) : cols[j][1] = i
                           THEN vals[CHOOSE j \in 1..Len(cols) : cols[j][1] = i] * rhs[i] ELSE rhs[i]]
\* U with columns 1/2 * (row j of the 4 x 4 Hadamard matrix) on the coordinates b .. b+3, js = the rows used;
\* result scaled by 4
H4 == << <<1, 1, 1, 1>>, <<1, -1, 1, -1>>, <<1, 1, -1, -1>>, <<1, -1, -1, 1>> >>
HDot(j, b, rhs) == H4[j][1] * rhs[b] + H4[j][2] * rhs[b + 1] + H4[j][3] * rhs[b + 2] + H4[j][4] * rhs[b + 3]
RECURSIVE HadSum(_, _, _, _, _, _)
HadSum(js, vals, b, rhs, i, m) ==
    IF m = 0 THEN 0
    ELSE (vals[m] - 1) * HDot(js[m], b, rhs) * H4[js[m]][i - b + 1] + HadSum(js, vals, b, rhs, i, m - 1)
LowRankHad4(js, vals, b, rhs) ==
    [i \in 1..Len(rhs) |-> IF i >= b /\ i <= b + 3 THEN 4 * rhs[i] + HadSum(js, vals, b, rhs, i, Len(js)) ELSE 4 * rhs[i]]
\* array_mult_eigs: D (I + U (diag(vals) - I) U^T) D rhs with D = diag(stds); Hadamard columns, scaled by 4
Scale(stds, v) == [i \in 1..Len(v) |-> stds[i] * v[i]]
MultEigsHad4(stds, js, vals, b, rhs) == Scale(stds, LowRankHad4(js, vals, b, Scale(stds, rhs)))

\* ---- special values: class of a result when x[k] is special and everything else finite ----
\* classes: "fin", "nan", "pinf", "ninf"
Sgn(v) == IF v > 0 THEN 1 ELSE IF v < 0 THEN -1 ELSE 0
\* special * finite v
MulClass(sp, v) == CASE sp = "nan" -> "nan"
                     [] Sgn(v) = 0 -> "nan"
                     [] (sp = "pinf") = (Sgn(v) > 0) -> "pinf"
                     [] OTHER -> "ninf"
\* a sum with exactly one special term and finite others has the class of that term
DotClass(sp, yk) == MulClass(sp, yk)
\* y + a*x at the special position (a2 = 2a); a = 0 gives 0 * inf = nan
AxpyClass(sp, a2) == MulClass(sp, a2)
\* (x + y)^2
SqClass(sp) == IF sp = "nan" THEN "nan" ELSE "pinf"
\* rotation with a special value at pos[k] (everything else finite): sc, ss = signs of cos eps, sin eps
\*   pos_out[k] = special * c + finite, vel'[k] = special * (-s) + finite
FlowPosClass(sp, sc) == MulClass(sp, sc)
FlowVelClass(sp, ss) == MulClass(sp, -ss)
\* gradient flow with a special value at pos[k]: vel[k] + eps * (special + finite)
GradFlowClass(sp, e2) == MulClass(sp, e2)
\* ---- the finiteness tests, by class of the one unusual element (everything else normal, finite, non-zero) ----
\* "sub" is a subnormal number: finite and not zero
\* "huge" / "max": finite numbers whose square is not (1e200, the largest double)
TestClasses == {"sub", "negsub", "zero", "negzero", "huge", "max", "nan", "pinf", "ninf"}
AllFinite(cl) == cl \in {"sub", "negsub", "zero", "negzero", "huge", "max"}
AllFiniteNonzero(cl) == cl \in {"sub", "negsub", "huge", "max"}
==============================================================================
