----------------------------- MODULE StatePool -----------------------------
(***************************************************************************)
(* C03 (state identity): the pooled, reference-counted storage of          *)
(* phase-space points (src/dynamics/state.rs).                             *)
(*                                                                         *)
(* A `State` is a handle on a cell; cloning a handle shares the cell,      *)
(* dropping the last handle hands the cell back to the pool's free list    *)
(* (or deallocates it when the pool is gone), `new_state` / `copy_state`   *)
(* take a cell from the free list or allocate one, `try_point_mut` gives   *)
(* write access only to a sole holder.  What a draw relies on:             *)
(*   - a cell on the free list is referenced by no live handle, so a new   *)
(*     state never shares its buffer with a state somebody still holds;    *)
(*   - what a handle observes changes only through a successful            *)
(*     `try_point_mut` on that very handle.                                *)
(* One action per public call (and per drop); the free list is the LIFO    *)
(* stack the code keeps.  A recycled cell keeps its old content (the code  *)
(* does not reset it).                                                     *)
(***************************************************************************)
EXTENDS Naturals, Sequences, FiniteSets

CONSTANTS NHandles,   \* handles 1..NHandles
          Values,     \* values written through try_point_mut (positive naturals)
          MaxCells,   \* bound on allocations
          DropRule    \* "last": as the code; "any": a drop that recycles a cell others still hold (mutant, for the vacuity guard)

VARIABLES cell,       \* handle -> 0 (no state) or the cell it refers to
          free,       \* the pool's free list (stack)
          alloc,      \* cells ever allocated: 1..alloc
          gone,       \* deallocated cells
          val,        \* cell -> content
          poolAlive,  \* the StatePool value itself still exists
          act         \* the last call and its result

spvars == <<cell, free, alloc, gone, val, poolAlive, act>>

Handles == 1..NHandles
Cells == 1..MaxCells
NoCell == 0
Range(s) == {s[i] : i \in DOMAIN s}
Holders(c) == {h \in Handles : cell[h] = c}
Live == {h \in Handles : cell[h] # NoCell}

SPInit ==
    /\ cell = [h \in Handles |-> NoCell]
    /\ free = <<>>
    /\ alloc = 0
    /\ gone = {}
    /\ val = [c \in Cells |-> 0]
    /\ poolAlive = TRUE
    /\ act = [op |-> "init", a |-> 0, b |-> 0, v |-> 0, ok |-> TRUE]

\* take a cell for handle h: top of the free list, or a fresh allocation
Take(h, c, fresh) ==
    IF free # <<>>
    THEN /\ c = free[Len(free)] /\ fresh = FALSE
         /\ free' = SubSeq(free, 1, Len(free) - 1)
         /\ alloc' = alloc
    ELSE /\ alloc < MaxCells
         /\ c = alloc + 1 /\ fresh = TRUE
         /\ alloc' = alloc + 1
         /\ free' = free

NewState(h) ==
    /\ poolAlive /\ cell[h] = NoCell
    /\ \E c \in Cells, fresh \in BOOLEAN :
          /\ Take(h, c, fresh)
          /\ cell' = [cell EXCEPT ![h] = c]
          /\ val' = IF fresh THEN [val EXCEPT ![c] = 0] ELSE val
    /\ act' = [op |-> "new", a |-> h, b |-> 0, v |-> 0, ok |-> TRUE]
    /\ UNCHANGED <<gone, poolAlive>>

CopyState(a, b) ==
    /\ poolAlive /\ cell[a] # NoCell /\ cell[b] = NoCell
    /\ \E c \in Cells, fresh \in BOOLEAN :
          /\ Take(b, c, fresh)
          /\ cell' = [cell EXCEPT ![b] = c]
          /\ val' = [val EXCEPT ![c] = val[cell[a]]]
    /\ act' = [op |-> "copy", a |-> a, b |-> b, v |-> 0, ok |-> TRUE]
    /\ UNCHANGED <<gone, poolAlive>>

CloneState(a, b) ==
    /\ cell[a] # NoCell /\ cell[b] = NoCell
    /\ cell' = [cell EXCEPT ![b] = cell[a]]
    /\ act' = [op |-> "clone", a |-> a, b |-> b, v |-> 0, ok |-> TRUE]
    /\ UNCHANGED <<free, alloc, gone, val, poolAlive>>

DropState(a) ==
    /\ cell[a] # NoCell
    /\ LET c == cell[a]
           lastHolder == (Holders(c) = {a}) \/ (DropRule = "any" /\ c \notin Range(free))
       IN /\ cell' = [cell EXCEPT ![a] = NoCell]
          /\ IF lastHolder /\ poolAlive THEN free' = Append(free, c) /\ gone' = gone
             ELSE IF lastHolder THEN gone' = gone \cup {c} /\ free' = free
             ELSE UNCHANGED <<free, gone>>
    /\ act' = [op |-> "drop", a |-> a, b |-> 0, v |-> 0, ok |-> TRUE]
    /\ UNCHANGED <<alloc, val, poolAlive>>

TryMut(a, v) ==
    /\ cell[a] # NoCell
    /\ LET c == cell[a]
           sole == Holders(c) = {a}
       IN /\ val' = IF sole THEN [val EXCEPT ![c] = v] ELSE val
          /\ act' = [op |-> "mut", a |-> a, b |-> 0, v |-> v, ok |-> sole]
    /\ UNCHANGED <<cell, free, alloc, gone, poolAlive>>

\* the pool value is dropped while states may still be held: its free cells go with it
DropPool ==
    /\ poolAlive
    /\ poolAlive' = FALSE
    /\ gone' = gone \cup Range(free)
    /\ free' = <<>>
    /\ act' = [op |-> "droppool", a |-> 0, b |-> 0, v |-> 0, ok |-> TRUE]
    /\ UNCHANGED <<cell, alloc, val>>

SPNext ==
    \/ \E h \in Handles : NewState(h) \/ DropState(h)
    \/ \E a, b \in Handles : CopyState(a, b) \/ CloneState(a, b)
    \/ \E a \in Handles, v \in Values : TryMut(a, v)
    \/ DropPool

SPSpec == SPInit /\ [][SPNext]_spvars

---------------------------------------------------------------------------
TypeOK ==
    /\ cell \in [Handles -> Cells \cup {NoCell}]
    /\ free \in Seq(Cells)
    /\ alloc \in 0..MaxCells
    /\ gone \subseteq Cells
    /\ poolAlive \in BOOLEAN

\* a live handle never refers to a cell that is on the free list or deallocated
NoAliasWithFree == \A h \in Live : cell[h] \notin Range(free) /\ cell[h] \notin gone
FreeDistinct == \A i, j \in DOMAIN free : i # j => free[i] # free[j]
\* every allocated cell is exactly one of: held, free, gone (no leak, no double bookkeeping)
Partition ==
    /\ (1..alloc) = {cell[h] : h \in Live} \cup Range(free) \cup gone
    /\ Range(free) \cap gone = {}
PoolGone == ~poolAlive => free = <<>>
PoolInv == TypeOK /\ NoAliasWithFree /\ FreeDistinct /\ Partition /\ PoolGone

\* what a handle that stays on its cell observes changes only by its own successful write
Stable == [][\A h \in Handles :
                (cell[h] # NoCell /\ cell'[h] = cell[h]
                    /\ ~(act'.op = "mut" /\ act'.a = h /\ act'.ok))
                => val'[cell[h]] = val[cell[h]]]_spvars
\* a state handed out by new_state / copy_state is held by nobody else
FreshExclusive == [][\A h \in Handles :
                (cell[h] = NoCell /\ cell'[h] # NoCell /\ act'.op \in {"new", "copy"})
                => {x \in Handles : cell'[x] = cell'[h]} = {h}]_spvars
\* write access exactly for a sole holder
MutIffSole == [][act'.op = "mut" => (act'.ok <=> Holders(cell[act'.a]) = {act'.a})]_spvars
\* allocation only when nothing can be recycled
Economy == [][alloc' > alloc => free = <<>>]_spvars
=============================================================================
