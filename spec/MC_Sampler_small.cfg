CONSTANTS
  Chains <- Chains2
  NumCores = 1
  Draws = 2
  MaxCmd = 2
  MaxWait = 1
  Faults <- FaultsNone
  UnwrapPanics = FALSE
  C0 = 0
  C1 = 1
  C2 = 2
SPECIFICATION Spec
INVARIANTS TypeOK PrefixOK QuiescentAgree CompleteRun NoFailureMeansNoErr PauseBound ParkedSilent NoPanic WaitReportsFailure
PROPERTY Termination
