--------------------------- MODULE StepSizeUpdate ---------------------------
(***************************************************************************)
(* C07 (update clause): the part of the dual-averaging and Adam step-size  *)
(* updates that is exact arithmetic.                                       *)
(*                                                                         *)
(* Two acceptance histories A and B are advanced in lock step, B's value   *)
(* never below A's.  For dual averaging the state that decides the order   *)
(* of the step sizes is the averaged error                                 *)
(*       hbar' = (1 - w) hbar + w (target - acc),  w = 1 / (count + t0)    *)
(* which is rational for rational inputs, and                              *)
(*       log step = mu - hbar * sqrt(count) / gamma   (then capped)        *)
(* is a decreasing function of hbar for fixed count.  So "higher           *)
(* acceptance never gives a smaller step" is hbarB <= hbarA at every       *)
(* step, and "positive, finite, bounded" follows from hbar staying inside  *)
(* [target - 1, target].  For Adam the smoothed error                      *)
(*       m' = b1 m + (1 - b1)(acc - target)                                *)
(* decides the direction of each move.                                     *)
(* The exact hbar / m sequences are handed to the harness, which checks    *)
(* the real estimators against them.                                       *)
(***************************************************************************)
EXTENDS Integers, Sequences, QRat, TLC, Json

CONSTANTS Grid,      \* acceptance values, as <<n, d>>
          Targets,   \* target acceptance values
          T0s,       \* integer t0 values
          Steps      \* number of updates

VARIABLES count, target, t0, hbarA, hbarB, mA, histA, histB, hbA, hbB, ms

suvars == <<count, target, t0, hbarA, hbarB, mA, histA, histB, hbA, hbB, ms>>

Beta1 == <<9, 10>>

SUInit ==
    /\ count = 1 /\ target \in Targets /\ t0 \in T0s
    /\ hbarA = <<0, 1>> /\ hbarB = <<0, 1>> /\ mA = <<0, 1>>
    /\ histA = <<>> /\ histB = <<>> /\ hbA = <<>> /\ hbB = <<>> /\ ms = <<>>

NextHbar(h, acc) ==
    LET w == Q(1, count + t0)
    IN QAdd(QMul(QSub(<<1, 1>>, w), h), QMul(w, QSub(target, acc)))

QLe(a, b) == ~QLt(b, a)

Advance(a, b) ==
    /\ count <= Steps
    /\ QLe(a, b)
    /\ hbarA' = NextHbar(hbarA, a)
    /\ hbarB' = NextHbar(hbarB, b)
    /\ mA' = QAdd(QMul(Beta1, mA), QMul(QSub(<<1, 1>>, Beta1), QSub(a, target)))
    /\ count' = count + 1
    /\ histA' = Append(histA, a) /\ histB' = Append(histB, b)
    /\ hbA' = Append(hbA, hbarA') /\ hbB' = Append(hbB, hbarB')
    /\ ms' = Append(ms, IF mA'[1] > 0 THEN 1 ELSE IF mA'[1] < 0 THEN -1 ELSE 0)
    /\ UNCHANGED <<target, t0>>

SUNext == \E a \in Grid, b \in Grid : Advance(a, b)
SUSpec == SUInit /\ [][SUNext]_suvars

\* higher acceptance never gives a larger averaged error, hence never a smaller step
Monotone == QLe(hbarB, hbarA)
\* the averaged error is a convex combination of 0 and the errors seen
HbarBounded == /\ QLe(QSub(target, <<1, 1>>), hbarA) /\ QLe(hbarA, target)
               /\ QLe(QSub(target, <<1, 1>>), hbarB) /\ QLe(hbarB, target)
UpdateInv == Monotone /\ HbarBounded

\* one line per complete pair of histories
Emit == (count = Steps + 1) =>
    PrintT(<<"REPLAY", ToJson([target |-> target, t0 |-> t0, a |-> histA, b |-> histB,
                                hba |-> hbA, hbb |-> hbB, msign |-> ms])>>)
=============================================================================
