#!/bin/bash
# sandbox_check.sh <patch.diff|-> <ID> [tier] : run a check against a scratch clone of /repo (HEAD + optional patch)
# through a copy of the harness, so that registered commands running at the same time are not disturbed.
P=$1; ID=$2; TIER=${3:-quick}
SB=/tmp/sb
mkdir -p $SB
if [ ! -d $SB/repo/.git ]; then git clone -q /repo $SB/repo; fi
git -C $SB/repo fetch -q /repo HEAD && git -C $SB/repo checkout -q --detach FETCH_HEAD && git -C $SB/repo checkout -q -- . && git -C $SB/repo clean -fdq
if [ "$P" != "-" ]; then git -C $SB/repo apply "$P" || exit 2; fi
mkdir -p $SB/harness
rsync -a --exclude target /verif/harness/ $SB/harness/
sed -i 's#path = "/repo#path = "/tmp/sb/repo#' $SB/harness/Cargo.toml
VERIF_HARNESS=$SB/harness VERIF_WORK=$SB/work VERIF_EVIDENCE=$SB/evidence /verif/bin/check $ID --tier $TIER
