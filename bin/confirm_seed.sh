#!/bin/bash
# confirm_seed.sh <ID> <demo-test-args...>  : confirm a seeded change in its scratch worktree /tmp/wt_<ID>
# (patch applied + demo present there). Writes /tmp/seed_<ID>/confirm.log
ID=$1; shift
WT=/tmp/wt_$ID; SD=/tmp/seed_$ID
export CARGO_TARGET_DIR=/tmp/tgt_confirm_$ID CARGO_NET_OFFLINE=true
cd $WT || exit 2
{
echo "== suite with patch (demo excluded by --skip seeded)"
cargo test --workspace --no-fail-fast --offline -- --skip seeded 2>&1 | grep -E "^test result|FAILED|failed" 
echo "== demo with patch: cargo test --offline $@"
cargo test --offline "$@" 2>&1 | grep -E "^test result|^test .*(FAILED|ok)|panicked" | head -20
echo "== revert patch"
git apply -R $SD/patch.diff && echo reverted
echo "== demo without patch"
cargo test --offline "$@" 2>&1 | grep -E "^test result|^test .*(FAILED|ok)|panicked" | head -20
echo "== re-apply patch"
git apply $SD/patch.diff && echo reapplied
} > $SD/confirm.log 2>&1
rm -rf $CARGO_TARGET_DIR
echo done >> $SD/confirm.log
