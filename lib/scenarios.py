"""Seeded scenario generators for the recording harness."""
import math, random

DENS = [
    {"kind": "Normal", "mu": [0.0], "sd": [1.0]},
    {"kind": "Normal", "mu": [1.0, -2.0], "sd": [0.1, 10.0]},
    {"kind": "Normal", "mu": [3.0], "sd": [1.0, 2.0, 0.5]},
    {"kind": "Corr", "rho": 0.9},
    {"kind": "Corr", "rho": -0.5},
    {"kind": "Banana", "b": 0.5},
    {"kind": "Funnel", "s": 1.5},
    {"kind": "StudentT", "nu": 3.0},
    {"kind": "Quartic"},
]
NUTS_PRESETS = ["diag_nuts", "lowrank_nuts", "flow_nuts"]
MCLMC_PRESETS = ["diag_mclmc", "lowrank_mclmc", "flow_mclmc"]
NONFATAL = ["RecErr", "NanLogp", "PosInfLogp", "NegInfLogp", "NanGrad", "InfGrad", "HugeLogp"]


def nuts_scenarios(seed, n, with_faults=True):
    rnd = random.Random(seed)
    out = []
    for i in range(n):
        preset = NUTS_PRESETS[i % 3]
        dim = rnd.choice([1, 2, 2, 3, 5, 17]) if i % 11 else 0
        dens = rnd.choice(DENS)
        if dim == 0:
            dens = DENS[0]
        if dens["kind"] in ("Banana", "Funnel") and dim < 2:
            dim = 2
        st = {
            "num_tune": rnd.choice([0, 5, 20, 40, 60]) if preset != "flow_nuts" else rnd.choice([0, 12, 40, 60]),
            "num_draws": rnd.choice([5, 20, 40]),
            "maxdepth": rnd.choice([1, 2, 3, 4, 6, 10]),
            "mindepth": rnd.choice([0, 0, 0, 1, 2]),
            "max_energy_error": rnd.choice([1000.0, 1000.0, 20.0, 0.5]),
            "store_gradient": rnd.random() < 0.5,
            "store_unconstrained": rnd.random() < 0.3,
            "store_transformed": rnd.random() < 0.3,
            "store_divergences": rnd.random() < 0.5,
            "check_turning": rnd.random() < 0.9,
            "extra_doublings": rnd.choice([0, 0, 0, 0, 1, 2]),
            "trajectory_kind": rnd.choice(["Euclidean", "Euclidean", "ExactNormal"]),
            "seed": rnd.randrange(1 << 30),
        }
        if rnd.random() < 0.25:
            st["target_integration_time"] = rnd.choice([0.01, 0.3, 1.0, 3.0, 8.0])
        if st["num_tune"] == 0 and preset != "flow_nuts":
            # num_tune = 0 with the window strategy is examined under C06
            st["num_tune"] = 5
        sc = {"preset": preset, "dim": dim, "density": dens, "settings": st, "seed": rnd.randrange(1 << 30),
              "chain": rnd.randrange(4), "init": [rnd.uniform(-1, 1) for _ in range(dim)]}
        if with_faults and rnd.random() < 0.3:
            nf = rnd.choice([1, 1, 2, 5])
            sc["faults"] = [[rnd.randrange(5, 400), rnd.choice(NONFATAL)] for _ in range(nf)]
            if rnd.random() < 0.2:
                sc["faults"].append([rnd.randrange(30, 300), "FatalErr"])
        out.append(sc)
    return out


def schedule_scenarios(seed, n):
    """Chains exercising the warm-up schedule: all six presets, many num_tune, window fractions,
    frequencies, growth factors, jitter settings and step-size methods."""
    rnd = random.Random(seed)
    tunes = [0, 1, 2, 3, 5, 7, 10, 19, 20, 21, 50, 100, 101, 150, 400]
    presets = NUTS_PRESETS + MCLMC_PRESETS
    out = []
    for i in range(n):
        preset = presets[i % 6]
        nt = tunes[(i // 6) % len(tunes)] if i < 6 * len(tunes) else rnd.choice(tunes + [rnd.randrange(0, 300)])
        dim = rnd.choice([1, 2, 3, 5])
        dens = rnd.choice(DENS)
        if dens["kind"] in ("Banana", "Funnel") and dim < 2:
            dim = 2
        if "mclmc" in preset and dim < 2:
            dim = 2
        method = rnd.choice(["DualAverage", "DualAverage", "Adam", {"Fixed": 0.25}])
        if preset == "flow_mclmc":
            # step-size adaptation driven by MCLMC acceptance statistics can shrink the step until a single draw takes
            # ~1e6 leapfrogs (gigabytes of events, whatever the target): the flow MCLMC runs keep a fixed step size; the
            # external strategy with an adapted step size is exercised by the flow NUTS runs, MCLMC with the global
            # strategy by the diag / low-rank MCLMC presets (whose step size the crate fixes itself)
            if rnd.random() >= 0.6:
                dens = DENS[0]
            method = {"Fixed": 0.25}
        sss = {"jitter": rnd.choice([None, 0.0, 0.1]), "adapt_options": {"method": method}}
        # configured (non-default) estimator options: an own random generator so that the rest of the scenario does not shift
        ro = random.Random(seed * 977 + i)
        if ro.random() < 0.35:
            sss["target_accept"] = ro.choice([0.6, 0.9, 0.95, 0.7])
        if ro.random() < 0.25:
            sss["initial_step"] = ro.choice([0.5, 1.0, 0.02])
        if ro.random() < 0.4 and method in ("DualAverage", "Adam"):
            if method == "DualAverage":
                sss["adapt_options"]["dual_average"] = {"k": ro.choice([0.75, 0.6, 1.0]), "t0": ro.choice([10.0, 3.0, 25.0]),
                                                        "gamma": ro.choice([0.05, 0.2, 0.5]),
                                                        "max_step_size": ro.choice([math.pi, 0.25, 0.6, 1.0])}
            else:
                sss["adapt_options"]["adam"] = {"beta1": ro.choice([0.9, 0.5]), "beta2": ro.choice([0.999, 0.9]),
                                                "epsilon": 1e-8, "learning_rate": ro.choice([0.05, 0.01, 0.2])}
        st = {"num_tune": nt, "num_draws": rnd.choice([0, 1, 8, 30]), "seed": rnd.randrange(1 << 30)}
        if "nuts" in preset:
            st["maxdepth"] = rnd.choice([3, 5, 8])
            st["max_energy_error"] = rnd.choice([1000.0, 1000.0, 2.0])
        else:
            st["step_size"] = rnd.choice([0.25, 0.5])
            st["momentum_decoherence_length"] = rnd.choice([1.0, 2.0])
            st["dynamic_step_size"] = rnd.random() < 0.5
        if preset in ("diag_nuts", "lowrank_nuts"):
            st["store_unconstrained"] = True
            st["store_gradient"] = True
        if "flow" in preset:
            st["adapt_options"] = {"step_size_settings": sss,
                                   "step_size_window": rnd.choice([0.07, 0.25, 0.0, 0.5]),
                                   "transform_update_freq": rnd.choice([128, 16, 7])}
        else:
            ao = {"step_size_settings": sss}
            if rnd.random() < 0.7:
                ao.update({"early_window": rnd.choice([0.3, 0.25, 0.5, 0.125, 0.0]),
                           "step_size_window": rnd.choice([0.15, 0.25, 0.125, 0.0, 0.5]),
                           "mass_matrix_switch_freq": rnd.choice([80, 10, 5, 3]),
                           "early_mass_matrix_switch_freq": rnd.choice([10, 3, 1]),
                           "mass_matrix_update_freq": rnd.choice([1, 1, 5, 20]),
                           "mass_matrix_window_growth": rnd.choice([1.0, 1.25, 1.5, 2.0])})
            if preset == "diag_nuts":
                ao["mass_matrix_options"] = {"store_mass_matrix": True, "use_grad_based_estimate": rnd.random() < 0.8}
            if preset == "lowrank_nuts":
                ao["mass_matrix_options"] = {"store_mass_matrix": True}
            st["adapt_options"] = ao
        out.append({"preset": preset, "dim": dim, "density": dens, "settings": st, "seed": rnd.randrange(1 << 30),
                    "chain": rnd.randrange(3), "init": [rnd.uniform(-1, 1) for _ in range(dim)]})
    # short warm-ups in which rejected draws delay the first transformation change (and with it the re-run of the
    # step-size search) to the last warm-up draw: 24 chains with num_tune 3..6, shallow trees, awkward targets
    r2 = random.Random(seed * 31 + 7)
    for i in range(24 if n >= 90 else 8):
        dim = r2.choice([2, 3, 5])
        out.append({"preset": r2.choice(["diag_nuts", "lowrank_nuts"]), "dim": dim, "density": r2.choice(DENS),
                    "settings": {"num_tune": r2.choice([3, 4, 4, 5, 6]), "num_draws": 4, "seed": r2.randrange(1 << 30),
                                 "maxdepth": r2.choice([1, 2, 5]), "store_unconstrained": True, "store_gradient": True,
                                 "adapt_options": {"step_size_settings": {"jitter": None}}},
                    "seed": r2.randrange(1 << 30), "chain": 0, "init": [r2.uniform(-2, 2) for _ in range(dim)]})
    # two recorded instances of that situation (search falls back to the initial step on the last warm-up draw)
    out.append({"preset": "diag_nuts", "dim": 5, "density": {"kind": "Normal", "mu": [3.0], "sd": [1.0, 2.0, 0.5]},
                "settings": {"num_tune": 4, "num_draws": 4, "seed": 229171712, "maxdepth": 2,
                             "adapt_options": {"step_size_settings": {"jitter": None}}},
                "seed": 26380590, "chain": 0,
                "init": [-0.8010983479410125, 1.0344725240211745, -1.7262563395760484, 1.9595017085441673, 1.715101199715606]})
    out.append({"preset": "diag_nuts", "dim": 5, "density": {"kind": "Banana", "b": 0.5},
                "settings": {"num_tune": 4, "num_draws": 4, "seed": 699167321, "maxdepth": 2,
                             "adapt_options": {"step_size_settings": {"jitter": None}}},
                "seed": 306787642, "chain": 0,
                "init": [0.7555413858088844, 1.5664481377917934, -1.882684583418909, -0.4416382054378474, -0.6031120297114234]})
    return out


SAMPLER_GROUPS = [(2, 1, 4), (3, 2, 4), (2, 2, 3), (3, 1, 3), (4, 16, 3), (1, 1, 4), (8, 3, 2), (2, 1, 0)]


def user_script(rnd, end=None, allow_pause=True):
    ops = []
    paused = False
    n = rnd.choice([0, 1, 2, 3, 4, 6])
    for _ in range(n):
        if rnd.random() < 0.5:
            ops.append({"op": "sleep", "us": rnd.choice([0, 50, 200, 1000, 5000, 30000])})
        c = rnd.choice(["pause", "resume", "progress", "flush", "inspect", "pause", "resume"])
        if c == "pause" and not allow_pause:
            c = "progress"
        ops.append({"op": c})
        if c == "pause":
            paused = True
        if c == "resume":
            paused = False
    end = end or rnd.choice(["wait", "wait", "abort", "wait_then_abort"])
    if end == "abort_late":
        ops.append({"op": "sleep", "us": 60000})
        ops.append({"op": "abort"})
    elif end == "abort":
        if rnd.random() < 0.5:
            ops.append({"op": "sleep", "us": rnd.choice([0, 100, 3000, 30000])})
        ops.append({"op": "abort"})
    else:
        if end == "wait_then_abort":
            ops.append({"op": "wait", "ms": rnd.choice([0, 1, 3])})
            ops.append({"op": "progress"})
            ops.append({"op": "abort"})
        else:
            if paused:
                # a quiescent observation while paused, then resume so that waiting can end
                ops.append({"op": "sleep", "us": 20000})
                ops.append({"op": "progress"})
                ops.append({"op": "resume"})
            if rnd.random() < 0.3:
                # wait without a practical limit: returns when the run has finished
                ops.append({"op": "wait", "ms": 0, "max": True})
            for _ in range(6):
                ops.append({"op": "wait", "ms": 4000})
            ops.append({"op": "abort"})
    return ops


def sampler_scenarios(seed, per_group, faults="none"):
    """faults: none | density (recoverable only) | failures (fatal / storage / init / model)"""
    rnd = random.Random(seed)
    out = []
    for (chains, cores, draws) in SAMPLER_GROUPS:
        for r in range(per_group):
            preset = rnd.choice(["diag_nuts", "diag_nuts", "diag_nuts", "lowrank_nuts", "diag_mclmc"])
            nt = rnd.randrange(0, draws + 1)
            st = {"num_tune": nt, "num_draws": draws - nt, "num_chains": chains, "seed": rnd.randrange(1 << 30)}
            if "nuts" in preset:
                st["maxdepth"] = rnd.choice([2, 3, 4])
            else:
                st["step_size"] = 0.5
                st["momentum_decoherence_length"] = 1.0
            dim = rnd.choice([2, 3])
            sc = {"preset": preset, "dim": dim, "density": rnd.choice(DENS[:5]), "settings": st, "num_cores": cores,
                  "sched_seed": rnd.randrange(1 << 30), "sched_amp_us": rnd.choice([50, 200, 800]),
                  "group": [chains, cores, draws]}
            if rnd.random() < 0.4:
                sc["delays"] = [[rnd.randrange(chains), rnd.choice([100, 400])]]
            if rnd.random() < 0.5:
                sc["cb_rate_us"] = rnd.choice([50, 300, 2000, 100000])
            if rnd.random() < 0.35:
                sc["const_init"] = True      # all chains start at the same point: only their streams tell them apart
            if faults == "none":
                sc["script"] = user_script(rnd)
            elif faults == "density":
                sc["faults"] = [[rnd.randrange(chains), rnd.randrange(3, 60), rnd.choice(NONFATAL)]
                                for _ in range(rnd.choice([1, 2, 4]))]
                sc["script"] = user_script(rnd, end="wait", allow_pause=False)
                if r % 2 == 0:
                    # the very first evaluation of a chain misbehaves: its first initialisation attempt fails, the next one
                    # succeeds, and the chain must go on to sample
                    sc["faults"].append([r % chains, 0, NONFATAL[(r // 2) % len(NONFATAL)]])
            else:
                kind = rnd.choice(["fatal", "fatal", "storage", "init", "model", "two"])
                c = rnd.randrange(chains)
                if kind in ("fatal", "two"):
                    sc["faults"] = [[c, rnd.choice([3, 8, 15, 25, 40]), "FatalErr"]]
                if kind in ("storage", "two"):
                    sc["storage_faults"] = [[(c + 1) % chains if kind == "two" else c, rnd.randrange(max(draws, 1))]]
                if kind == "init":
                    sc["init_fail"] = [c]
                if kind == "model":
                    sc["math_fail"] = [c]
                sc["fail_kind"] = kind
                sc["script"] = user_script(rnd, end=rnd.choice(["wait", "wait", "abort_late"]), allow_pause=False)
                if sc["script"][-1]["op"] != "abort" or True:
                    pass
                if sc["script"] and sc["script"][-1]["op"] == "abort" and len(sc["script"]) >= 7:
                    pass
            out.append(sc)
    if faults == "none":
        # one run per preset in which all chains start from the same point on a benign target: only the chains' own random
        # streams can make their draws differ (C10, last sentence)
        for preset in ["diag_nuts", "lowrank_nuts", "diag_mclmc"]:
            st = {"num_tune": 6, "num_draws": 6, "num_chains": 2, "seed": rnd.randrange(1 << 30)}
            if "nuts" in preset:
                st["maxdepth"] = 4
            else:
                st["step_size"] = 0.5
                st["momentum_decoherence_length"] = 1.0
            out.append({"preset": preset, "dim": 3, "density": DENS[0], "settings": st, "num_cores": 2,
                        "sched_seed": rnd.randrange(1 << 30), "sched_amp_us": 50, "group": [2, 2, 12], "const_init": True,
                        "script": [{"op": "wait", "ms": 4000}] * 6 + [{"op": "abort"}]})
        # a long pause (0.35 s) of slowed chains that still have draws to do: a parked chain must stay parked however long
        # the pause lasts (quiescent observations before and after the wait must agree)
        for j, preset in enumerate(["diag_nuts", "diag_mclmc"]):
            st = {"num_tune": 6, "num_draws": 6, "num_chains": 2, "seed": rnd.randrange(1 << 30)}
            if "nuts" in preset:
                st["maxdepth"] = 3
            else:
                st["step_size"] = 0.5
                st["momentum_decoherence_length"] = 1.0
            out.append({"preset": preset, "dim": 2, "density": DENS[0], "settings": st, "num_cores": 2,
                        "sched_seed": rnd.randrange(1 << 30), "sched_amp_us": 50, "group": [2, 2, 12],
                        "delays": [[0, 1500], [1, 2500]], "keep_script": True,
                        "script": [{"op": "sleep", "us": 20000 + 15000 * j}, {"op": "pause"}, {"op": "sleep", "us": 20000},
                                   {"op": "progress"}, {"op": "sleep", "us": 350000}, {"op": "progress"}, {"op": "inspect"},
                                   {"op": "resume"}] + [{"op": "wait", "ms": 4000}] * 6 + [{"op": "abort"}]})
        # snapshots while chains are recording: every record takes 2 ms (the chain holds its trace lock meanwhile) and the
        # script inspects every millisecond; every snapshot must contain every chain that has recorded something
        for j in range(2):
            st = {"num_tune": 6, "num_draws": 6, "num_chains": 2, "seed": rnd.randrange(1 << 30), "maxdepth": 2}
            out.append({"preset": "diag_nuts", "dim": 2, "density": DENS[0], "settings": st, "num_cores": 2,
                        "sched_seed": rnd.randrange(1 << 30), "sched_amp_us": 50, "group": [2, 2, 12], "keep_script": True,
                        "rec_delay_us": 2000,
                        "script": [x for _ in range(24) for x in ({"op": "inspect"}, {"op": "sleep", "us": 700 + 500 * j})]
                                  + [{"op": "wait", "ms": 4000}] * 6 + [{"op": "abort"}]})
    if faults == "failures":
        # an unrecoverable error at every evaluation of a short warm-up that crosses the first transformation
        # change (so that it also lands in the re-run of the step-size search): the run must report it
        for k in range(3, 3 + 12 * per_group):
            st = {"num_tune": 6, "num_draws": 2, "num_chains": 2, "seed": 1000 + (seed % 1000), "maxdepth": 3,
                  "adapt_options": {"early_mass_matrix_switch_freq": 3, "mass_matrix_switch_freq": 4,
                                    "mass_matrix_update_freq": 1}}
            out.append({"preset": "diag_nuts", "dim": 2, "density": DENS[1], "settings": st, "num_cores": 2,
                        "sched_seed": rnd.randrange(1 << 30), "sched_amp_us": 50, "group": [2, 2, 8],
                        "faults": [[k % 2, k, "FatalErr"]], "fail_kind": "fatal_sweep",
                        "script": [{"op": "wait", "ms": 4000}] * 6 + [{"op": "abort"}]})
        # ... and an unrecoverable error whose failing evaluation is still in flight when the user aborts: the density
        # announces the fault and keeps the call for 150 ms, the script waits for the announcement and aborts at once;
        # abort() must hand the error back although the controller has begun to finalise
        for j, k in enumerate([5, 8, 12, 17, 23, 30][:max(3, 2 * per_group)]):
            st = {"num_tune": 6, "num_draws": 2, "num_chains": 2, "seed": 2000 + (seed % 1000) + j, "maxdepth": 3}
            out.append({"preset": ["diag_nuts", "lowrank_nuts", "diag_mclmc"][j % 3], "dim": 2, "density": DENS[1], "settings": st,
                        "num_cores": 2, "sched_seed": rnd.randrange(1 << 30), "sched_amp_us": 50, "group": [2, 2, 8],
                        "faults": [[j % 2, k, "FatalErr"]], "fail_kind": "fatal_during_abort", "fatal_sleep_ms": 150,
                        "script": [{"op": "wait_fatal", "ms": 1500}, {"op": "abort"}]})
    return out


def schema_scenarios(seed, n):
    rnd = random.Random(seed)
    presets = NUTS_PRESETS + MCLMC_PRESETS
    out = []
    for i in range(n):
        preset = presets[i % 6]
        dim = rnd.choice([1, 3, 3, 5]) if i % 13 else 0
        if "mclmc" in preset and dim < 2:
            dim = 2
        dens = rnd.choice(DENS)
        if dens["kind"] in ("Banana", "Funnel") and dim < 2:
            dens = DENS[0]
        st = {"num_tune": rnd.choice([0, 3, 12, 40]), "num_draws": rnd.choice([3, 10]),
              "store_gradient": rnd.random() < 0.5, "store_unconstrained": rnd.random() < 0.5,
              "store_transformed": rnd.random() < 0.5, "store_divergences": rnd.random() < 0.5,
              "seed": rnd.randrange(1 << 30)}
        if "nuts" in preset:
            st["maxdepth"] = rnd.choice([2, 4, 6])
            st["max_energy_error"] = rnd.choice([1000.0, 0.3])
        else:
            st["max_energy_error"] = rnd.choice([1000.0, 0.05])
            st["dynamic_step_size"] = rnd.random() < 0.5
            st["momentum_decoherence_length"] = 1.0
        if "flow" not in preset:
            mm = {"store_mass_matrix": rnd.random() < 0.5}
            if "diag" in preset:
                mm["use_grad_based_estimate"] = rnd.random() < 0.7
            st["adapt_options"] = {"mass_matrix_options": mm, "mass_matrix_update_freq": rnd.choice([1, 4]),
                                   "early_mass_matrix_switch_freq": rnd.choice([3, 10])}
        if preset == "flow_mclmc":
            # keep the step size fixed: adapting it on MCLMC acceptance statistics can make draws of ~1e6 steps
            st["adapt_options"] = {"step_size_settings": {"adapt_options": {"method": {"Fixed": 0.3}}}}
        sc = {"preset": preset, "dim": dim, "density": dens, "settings": st, "seed": rnd.randrange(1 << 30),
              "chain": rnd.randrange(5), "init": [rnd.uniform(-1, 1) for _ in range(dim)]}
        if rnd.random() < 0.3:
            sc["faults"] = [[rnd.randrange(8, 200), rnd.choice(NONFATAL)] for _ in range(3)]
        # every other model declares only its own dimension (as a user's model does), not the sampler's
        sc["own_dims"] = (i % 2 == 1)
        out.append(sc)
    return out


def mclmc_scenarios(seed, n):
    rnd = random.Random(seed)
    out = []
    for i in range(n):
        preset = MCLMC_PRESETS[i % 3]
        dim = rnd.choice([2, 3, 5, 8])
        dens = rnd.choice([DENS[0], DENS[1], DENS[2], DENS[3], DENS[8], DENS[5]])
        nt = rnd.choice([0, 4, 10, 20, 33])
        st = {"num_tune": nt, "num_draws": rnd.choice([3, 8]), "step_size": rnd.choice([0.25, 0.5, 0.3, 1.0]),
              "momentum_decoherence_length": rnd.choice([0.5, 1.0, 2.0, 3.0]),
              "subsample_frequency": rnd.choice([1.0, 1.0, 0.5, 0.0, 0.3]),
              "dynamic_step_size": rnd.random() < 0.6,
              "trajectory_kind": rnd.choice(["Microcanonical", "Euclidean", "EuclideanEarlyThenMicrocanonical",
                                             "EuclideanEarlyThenMicrocanonical"]),
              "trajectory_switch_fraction": rnd.choice([0.3, 0.5, 0.0, 1.0, 0.25]),
              "max_energy_error": rnd.choice([1000.0, 1000.0, 1.0, 0.05]),
              "seed": rnd.randrange(1 << 30)}
        if preset == "flow_mclmc":
            st["adapt_options"] = {"step_size_settings": {"jitter": rnd.choice([None, 0.1]),
                                                          "adapt_options": {"method": {"Fixed": st["step_size"]}}}}
        else:
            st["adapt_options"] = {"step_size_settings": {"jitter": rnd.choice([None, 0.1, 0.0])},
                                   "early_mass_matrix_switch_freq": 3, "mass_matrix_switch_freq": 5}
        sc = {"preset": preset, "dim": dim, "density": dens, "settings": st, "seed": rnd.randrange(1 << 30),
              "chain": rnd.randrange(3), "init": [rnd.uniform(-1, 1) for _ in range(dim)]}
        if rnd.random() < 0.5:
            sc["faults"] = [[rnd.randrange(6, 250), rnd.choice(NONFATAL)] for _ in range(rnd.choice([1, 3, 8]))]
        out.append(sc)
    return out


def search_scenarios(seed, n):
    """Short NUTS chains whose point is the initial step-size search (and its re-run after the first
    transformation change): initial steps from 1e-7 to 1e4 (not powers of two), targets 0.05..0.99,
    faults placed at the first evaluations so that some land on search probes."""
    rnd = random.Random(seed)
    out = []
    for i in range(n):
        preset = NUTS_PRESETS[i % 3]
        dim = rnd.choice([1, 2, 3, 5])
        dens = rnd.choice(DENS)
        if dens["kind"] in ("Banana", "Funnel") and dim < 2:
            dim = 2
        method = rnd.choice(["DualAverage", "DualAverage", "Adam"]) if i % 13 else {"Fixed": 0.3}
        initial = rnd.choice([0.1, 0.1, 1.0, 3.7e-7, 1.3e-3, 0.07, 2.5, 40.0, 977.0, 1.1e4, 10 ** rnd.uniform(-6, 3)])
        target = rnd.choice([0.8, 0.8, 0.5, 0.05, 0.3, 0.65, 0.95, 0.99, rnd.uniform(0.05, 0.99)])
        sss = {"initial_step": initial, "target_accept": target, "adapt_options": {"method": method}}
        st = {"num_tune": rnd.choice([0, 12, 30, 60]), "num_draws": 2, "maxdepth": rnd.choice([3, 5]),
              "seed": rnd.randrange(1 << 30), "max_energy_error": rnd.choice([1000.0, 1000.0, 20.0, 0.5])}
        if "flow" in preset:
            st["adapt_options"] = {"step_size_settings": sss, "transform_update_freq": rnd.choice([128, 8])}
        else:
            st["adapt_options"] = {"step_size_settings": sss,
                                   "early_mass_matrix_switch_freq": rnd.choice([10, 3]),
                                   "mass_matrix_switch_freq": rnd.choice([80, 10])}
        sc = {"preset": preset, "dim": dim, "density": dens, "settings": st, "seed": rnd.randrange(1 << 30),
              "chain": rnd.randrange(3), "init": [rnd.uniform(-2, 2) for _ in range(dim)]}
        if rnd.random() < 0.35:
            sc["faults"] = [[rnd.randrange(2, 14), rnd.choice(NONFATAL + ["FatalErr"])] for _ in range(rnd.choice([1, 1, 2]))]
        out.append(sc)
    return out


def momentum_scenarios(seed, n):
    """NUTS chains for the momentum clause of C04: every NUTS preset, Euclidean and ExactNormal kinetic energy,
    dimensions 1..100, both step-size adaptation methods, warm-up crossing transformation changes."""
    rnd = random.Random(seed)
    out = []
    dims = [1, 2, 3, 5, 10, 33, 100]
    for i in range(n):
        preset = NUTS_PRESETS[i % 3]
        dim = dims[(i // 3) % len(dims)] if i < 3 * len(dims) else rnd.choice(dims + [0])
        dens = rnd.choice([DENS[0], DENS[1], DENS[2], DENS[7]])
        st = {"num_tune": rnd.choice([0, 15, 40]), "num_draws": rnd.choice([3, 10]), "maxdepth": rnd.choice([2, 4, 6]),
              "trajectory_kind": rnd.choice(["Euclidean", "ExactNormal"]), "seed": rnd.randrange(1 << 30),
              "adapt_options": {"step_size_settings": {"adapt_options": {"method": rnd.choice(["DualAverage", "Adam"])}}}}
        if "flow" not in preset:
            st["adapt_options"]["early_mass_matrix_switch_freq"] = rnd.choice([10, 3])
            st["adapt_options"]["mass_matrix_switch_freq"] = rnd.choice([80, 10])
        out.append({"preset": preset, "dim": dim, "density": dens, "settings": st, "seed": rnd.randrange(1 << 30),
                    "chain": rnd.randrange(4), "init": [rnd.uniform(-1, 1) for _ in range(dim)], "momentum": True})
    return out
