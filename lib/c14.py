"""C14 - every storage backend returns exactly what the chains recorded."""
import json, os, random
import common as C
import project

VARSETS = [
    [{"name": "a", "type": "f64", "dims": []}, {"name": "v", "type": "f64", "dims": [["dv", 3]]},
     {"name": "m", "type": "f64", "dims": [["d2", 2], ["d3", 3]]}, {"name": "mt", "type": "f64", "dims": [["d3", 3], ["d2", 2]]}],
    [{"name": "k", "type": "i64", "dims": []}, {"name": "u", "type": "u64", "dims": [["dv", 3]]},
     {"name": "b", "type": "bool", "dims": []}, {"name": "bv", "type": "bool", "dims": [["dv", 3]]},
     {"name": "s", "type": "string", "dims": []}, {"name": "f", "type": "f32", "dims": [["dv", 3]]},
     {"name": "x", "type": "f64", "dims": [["one", 1]]}],
]
CSV_VARS = [{"name": "a", "type": "f64", "dims": []}, {"name": "v", "type": "f64", "dims": [["dv", 3]]},
            {"name": "m", "type": "f64", "dims": [["d2", 2], ["d3", 3]]}, {"name": "mt", "type": "f64", "dims": [["d3", 3], ["d2", 2]]},
            {"name": "k", "type": "i64", "dims": []}, {"name": "q", "type": "f32", "dims": [["d2", 2]]}]
BACKENDS = ["hashmap", "arrow", "ndarray", "csv", "zarr", "zarr_async"]


def behaviours(chk, maxt, maxd):
    cfg = os.path.join(C.WORK, "c14_mc.cfg")
    with open(cfg, "w") as f:
        f.write("CONSTANTS\n  MaxTune = %d\n  MaxDraws = %d\n  EmitOps = TRUE\nSPECIFICATION MCSpec\n"
                "INVARIANTS ViewsAreSubsequences WarmBeforeSample EmitReplay\nCHECK_DEADLOCK FALSE\n" % (maxt, maxd))
    r = C.tlc("MC_Storage.tla", cfg, "c14_mc", timeout=1200, workers=4)
    C.require_tlc_ok(r, "MC_Storage")
    chk.add_tlc(r, "storage_mc")
    if r["violated"]:
        chk.violation("spec:storage", "Storage.tla: %s violated" % r["violated"], r["out"][-2000:])
    out = []
    for line in C.replay_lines(r["out"]):
        s = json.loads(line[line.index('"REPLAY", ') + 10:].rstrip().rstrip(">"))
        out.append(json.loads(s)["ops"])
    return out


def mirror(ops, chains):
    """Give chain c the pattern of chain 0 with div/upd flags rotated; flush / inspect stay global."""
    res = []
    for op in ops:
        if op["op"] == "record":
            for c in range(chains):
                d, u = op["div"], op["upd"]
                if c % 2 == 1:
                    d, u = u, d
                res.append({"op": "record", "chain": c, "tuning": op["tuning"], "div": d, "upd": u})
        else:
            res.append(dict(op))
    return res


def make_scenarios(behs, rnd, per_backend, backends, maxt, maxd):
    scs = []
    # TLC's workers print behaviours in no particular order: sort, so that the seed alone decides what is sampled
    behs = sorted(behs, key=lambda b: json.dumps(b, sort_keys=True))
    for b in backends:
        pick = behs if per_backend >= len(behs) else rnd.sample(behs, per_backend)
        for ops in pick:
            chains = rnd.choice([1, 2, 2, 3])
            sc = {"backend": b, "preset": rnd.choice(["diag_nuts", "diag_nuts", "diag_mclmc"]), "dim": rnd.choice([1, 2, 3]),
                  "num_tune": maxt, "num_draws": maxd, "chains": chains,
                  "store_warmup": rnd.random() < 0.6 if b in ("arrow", "csv", "zarr", "zarr_async") else True,
                  "chunk": rnd.choice([1, 2, 3, 100]), "full_events": rnd.random() < 0.5, "optvecs": rnd.random() < 0.5,
                  "specials": rnd.random() < 0.7, "precision": rnd.choice([6, 8]),
                  "draw_vars": CSV_VARS if b == "csv" else rnd.choice(VARSETS),
                  "ops": mirror(ops, chains), "workdir": os.path.join(C.WORK, "storage"),
                  "settings": {"adapt_options": {"mass_matrix_options": {"store_mass_matrix": True}}}}
            scs.append(sc)
    return scs


def long_phase_scenarios(rnd):
    """Phases longer than a chunk and not a multiple of it (5 warm-up and 7 sampling records, chunk 2 and 3), every
    backend, both variable sets (numbers and strings): the enumerated sequences have at most two records per phase."""
    scs = []
    for b in BACKENDS:
        for chunk in (2, 3):
            ops = [{"op": "record", "tuning": True, "div": r % 2 == 1, "upd": r % 3 == 0} for r in range(5)]
            ops.append({"op": "flush"})
            ops += [{"op": "record", "tuning": False, "div": r % 3 == 2, "upd": False} for r in range(7)]
            if chunk == 3:
                ops.insert(9, {"op": "flush"})
            chains = rnd.choice([1, 2])
            scs.append({"backend": b, "preset": "diag_nuts", "dim": 2, "num_tune": 5, "num_draws": 7, "chains": chains,
                        "store_warmup": True, "chunk": chunk, "full_events": chunk == 2, "optvecs": True, "specials": True,
                        "precision": 8, "draw_vars": CSV_VARS if b == "csv" else VARSETS[1 if chunk == 2 else 0],
                        "ops": mirror(ops, chains), "workdir": os.path.join(C.WORK, "storage"),
                        "settings": {"adapt_options": {"mass_matrix_options": {"store_mass_matrix": True}}}})
            if b in ("zarr", "zarr_async"):
                sc2 = dict(scs[-1])
                sc2["draw_vars"] = VARSETS[0 if chunk == 2 else 1]
                scs.append(sc2)
    return scs


def run_backends(chk, scs, name, key_prefix=""):
    wd = C.workdir(name)
    os.makedirs(os.path.join(C.WORK, "storage"), exist_ok=True)
    inp, outp = os.path.join(wd, "sc.ndjson"), os.path.join(wd, "out.ndjson")
    with open(inp, "w") as f:
        f.write("\n".join(json.dumps(s) for s in scs) + "\n")
    C.vh(["replay-storage", inp, outp], check=True, timeout=7200, env={"VH_THREADS": "12"})
    runs = []
    for line in open(outp):
        d = json.loads(line)
        pe = project.project_storage(d)
        meta = {k: d["scenario"][k] for k in ("backend", "preset", "chains", "store_warmup", "chunk", "full_events", "optvecs",
                                              "specials", "num_tune", "num_draws")}
        meta["ops"] = d["scenario"]["ops"]
        meta["vars"] = [v["name"] for v in d["scenario"]["draw_vars"]]
        runs.append((meta, pe))
    failures, st = C.validate_runs("StorageTrace.tla", "StorageTrace.cfg", runs, name, max_rejections=80)
    chk.cov["states"] += st["states"]
    chk.cov["transitions"] += st["generated"]
    chk.cov["traces_validated_against_impl"] += st["runs_validated"]
    chk.cov["evaluations"] += len(runs)
    chk.cov["distinct_nontrivial"] += sum(1 for m, pe in runs if sum(1 for e in pe if e["e"] == "record") >= 2)
    chk.part("replay_" + name, runs=len(runs), validated=st["runs_validated"], tlc_runs=st["tlc_runs"], wall_s=round(st["wall"], 1))
    return runs, failures


def diagnose(f, name="diag"):
    """Which entries of a rejected observation are wrong? Re-validates one entry at a time."""
    ev = f["event"]
    if "entries" not in ev or not ev["entries"]:
        return []
    prefix = []
    for e in f["full_run"]:
        if e is ev:
            break
        if e["e"] in ("reset", "record", "flush"):
            prefix.append(e)
    runs = []
    for k, x in enumerate(ev["entries"]):
        one = dict(ev)
        one["entries"] = [x]
        one["complete"] = True
        runs.append(({"k": k}, prefix + [one]))
    fails, _ = C.validate_runs("StorageTrace.tla", "StorageTrace.cfg", runs, name, max_rejections=6)
    return [ev["entries"][x["meta"]["k"]] for x in fails]


def explain(f):
    """A stable key saying which backend / variable class / layout disagreed."""
    ev, meta = f["event"], f["meta"]
    b = meta["backend"]
    if ev["e"] == "record":
        return "%s:record_failed:%s" % (b, (ev.get("err") or "")[:40].replace(" ", "_"))
    if ev["e"] in ("observe", "reader"):
        if ev["e"] == "observe" and not ev.get("ok", True):
            return "%s:%s_failed:%s" % (b, ev.get("kind"), (ev.get("why") or "")[:50].replace(" ", "_"))
        if not ev.get("complete", True):
            return "%s:%s:variables_missing" % (b, ev.get("kind"))
        return "%s:%s:wrong_content%s" % (b, ev.get("kind"), "" if meta.get("store_warmup", True) else ":store_warmup=false")
    return "%s:unexplained:%s" % (b, ev.get("e"))


def derived_schema(chk):
    """Draw variables declared through #[derive(Storable)]: the declaration the backends allocate from must describe the
    values the generated get_all() hands them (type, scalar / vector, length = product of the declared dims), for one field
    of every supported type, and the real backends must take those values."""
    p = C.vh(["derive-schema", C.WORK], check=True, timeout=600)
    d = json.loads(p.stdout.strip().splitlines()[-1])
    bad = []
    for f in d["fields"]:
        if f["value_type"] in ("absent",):
            continue
        if f["value_type"] != f["declared"]:
            bad.append(("type", f))
        elif f["value_scalar"] != (not f["dims"]):
            bad.append(("scalar_vs_dims", f))
        elif f["value_len"] != f["dim_product"]:
            bad.append(("length", f))
    for n in d["values_without_declaration"]:
        bad.append(("undeclared", {"name": n}))
    chk.part("derived_schema", fields=len(d["fields"]), backends=d["backends"], mismatches=len(bad))
    if len(d["fields"]) < 20:
        raise C.ToolError("derived draw struct declares only %d fields" % len(d["fields"]))
    for kind, f in bad[:5]:
        chk.violation("derive:%s:%s" % (kind, f["name"]), "derived declaration does not describe the recorded value (%s): %s" %
                      (kind, json.dumps(f)), f)
    for b in d["backends"]:
        if not b["ok"]:
            chk.violation("derive:backend:%s" % b["backend"], "backend %s does not take / return the values of a derived draw "
                          "struct: %s" % (b["backend"], b.get("error")), b)


def run(tier):
    chk = C.Check("C14", "model_checking", tier)
    chk.cov["rule"] = ("TLC enumerates every operation sequence (record with warm-up/divergence/update flags, flush, inspect, "
                       "finalize after any prefix = aborted runs) of the abstract log for num_tune, num_draws <= 2; each sampled "
                       "(quick) / every (thorough) sequence is executed on each real backend (HashMap, Arrow, ndarray, CSV, Zarr "
                       "sync, Zarr async) x chains 1..3 x store_warmup x event/optional-field options x value types (f64, f32, "
                       "i64, u64, bool, string; scalar, vector, 2x3 and 3x2 matrix; NaN, +-inf, empty strings) and the backend's "
                       "answer, read back with a fresh reader and decoded to record indices, must be the observation the "
                       "specification computes; non-trivial: >= 2 records; distinct by (backend, options, sequence)")
    chk.assumptions = ["values are generated injectively from (variable, chain, record index); decoding to record indices is done "
                       "harness-side by exact comparison of canonical cell strings (bit patterns)",
                       "stats 'draw' and 'chain' are omitted by the HashMap/ndarray/Zarr backends by design and not demanded",
                       "CSV holds its seven fixed statistics and the draw variables (printed precision); its inspect() has no result by design",
                       "Zarr inspect is treated as a reader observation (only flushed data is demanded)",
                       "derive(Storable) declarations are checked on one struct with a field of every supported type "
                       "(harness side), the operation sequences use a hand-written Storable"]
    C.build_harness()
    derived_schema(chk)
    rnd = random.Random(C.seed() * 999331 + 77)
    behs = behaviours(chk, 2, 2)
    per = 60 if tier == "quick" else 1500
    scs = make_scenarios(behs, rnd, per, BACKENDS, 2, 2) + long_phase_scenarios(rnd)
    runs, failures = run_backends(chk, scs, "c14")
    for m, pe in runs[:2]:
        chk.sample({"scenario": m, "events": [{k: (v if k != "entries" else "%d entries" % len(v)) for k, v in e.items()} for e in pe[:8]]})
    seen = set()
    for f in failures:
        key = explain(f)
        if key in seen:
            continue
        seen.add(key)
        f["full_run"] = next(pe for m, pe in runs if m is f["meta"])
        ev = dict(f["event"])
        if "entries" in ev:
            bad = diagnose(f)
            ev["entries"] = [{"var": x["v"]["name"], "ev": x["v"]["ev"], "layout": x["layout"], "phase": x["phase"],
                              "chain": x["chain"], "rows": x["rows"], "maxcount": x["maxcount"]} for x in bad][:4]
        chk.violation(key, "backend answer differs from the specification (%s): %s; scenario=%s" %
                      (key, json.dumps(ev)[:900], json.dumps(f["meta"])[:700]), f["meta"])
    return chk.finish()


def replay(path):
    print(open(path).read()[:6000])
    return 0
