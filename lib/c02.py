"""C02 - the integrator is the textbook leapfrog for the implied mass matrix (exact-lattice part)."""
import json, os
import common as C

FAMILIES_QUICK = [("d1", True), ("d2q", False), ("d4", True), ("big", False)]
FAMILIES_THOROUGH = [("d1", True), ("d2", False), ("d4", True), ("big", False)]


def run(tier):
    chk = C.Check("C02", "model_checking", tier)
    chk.cov["rule"] = ("Lattice.tla: affine transformation x = mean + sigma*(L(s) y + mu) (rank 0..d, coordinate and Hadamard "
                       "eigenvectors), gradient pull-back and whitened leapfrog in exact rational arithmetic; TLC checks on every "
                       "case: step forward then backward returns the start, F^-1(F(y)) = y, pull-back = transposed Jacobian, and "
                       "for rank 0 the whitened step equals the textbook leapfrog with M^-1 = F F'; every case is replayed into "
                       "the real transformations (DiagMassMatrix and LowRankMassMatrix) and TransformedHamiltonian::leapfrog with "
                       "bit-exact comparison of whitened/original position, velocity, both gradients, log-density, trajectory "
                       "index, U-turn answer and the backward step; non-trivial: every replayed case; distinct by case")
    chk.assumptions = ["values are small dyadic rationals on which IEEE arithmetic is exact (decides structure: signs, factors eps/2 "
                       "vs eps, sigma vs 1/sigma, sqrt(lambda) vs its inverse, operand order); rounding on general floats is not decided",
                       "energy change compared at 1e-12 (the log-determinant is irrational)",
                       "O(eps^2) energy error, volume preservation over R^d, ExactNormal and Microcanonical integrators are not decided here (see DESIGN.md)",
                       "start points with an exactly zero gradient component are rejected by init_state and skipped"]
    C.build_harness()
    total_runs = 0
    for fam, with_e in (FAMILIES_QUICK if tier == "quick" else FAMILIES_THOROUGH):
        cfg = os.path.join(C.WORK, "c02_%s.cfg" % fam)
        with open(cfg, "w") as f:
            f.write("CONSTANTS\n  Family = \"%s\"\n  Emit = TRUE\n  WithEnergy = %s\nSPECIFICATION MCSpec\n"
                    "INVARIANTS InvReversible InvBijective InvTextbook InvPullBack EmitCase\nCHECK_DEADLOCK FALSE\n"
                    % (fam, "TRUE" if with_e else "FALSE"))
        r = C.tlc("MC_Lattice.tla", cfg, "c02_" + fam, timeout=3000, workers=12)
        C.require_tlc_ok(r, "Lattice " + fam)
        chk.add_tlc(r, "lattice_" + fam)
        if r["violated"]:
            chk.violation("spec:lattice:%s" % fam, "Lattice identity %s violated (%s)" % (r["violated"], fam), r["out"][-2000:])
            continue
        lines = C.replay_lines(r["out"])
        summ = os.path.join(C.WORK, "c02_%s.json" % fam)
        C.vh(["replay-lattice", "-", summ], stdin="\n".join(lines) + "\n", check=True, timeout=3000)
        s = json.load(open(summ))
        chk.part("replay_" + fam, cases=s["cases"], runs=s["runs"], skipped_zero_gradient=s["skipped_zero_gradient"],
                 failures=s["failures"], dims=s["dims"])
        chk.cov["evaluations"] += s["cases"]
        chk.cov["distinct_nontrivial"] += s["cases"] - s["skipped_zero_gradient"]
        chk.cov["traces_validated_against_impl"] += s["runs"]
        total_runs += s["runs"]
        for x in s["samples"][:1]:
            chk.sample({"lattice_case": x})
        if s["failures"]:
            f0 = s["first_failures"][0]
            chk.violation("replay:%s:%s" % (fam, f0["mismatch"].split(":")[1].strip()[:40].replace(" ", "_")),
                          "real integrator / transformation deviates from Lattice.tla: " + f0["mismatch"], s["first_failures"])
    if total_runs == 0 and not chk.violations:
        raise C.ToolError("no lattice case was replayed")
    chk.cov["exhaustive"] = True
    return chk.finish()


def replay(path):
    print(open(path).read()[:6000])
    return 0
