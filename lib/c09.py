"""C09 - adaptation windows discard stale draws and honour the schedule.
Same machinery as C06 (AdaptSchedule + AdaptScheduleTrace): the trace spec predicts, from the schedule
constants and the good/rejected history alone, the estimator counts (foreground/background), window
sizes, switch draws, transformation updates, the single re-run of the step-size search and which
acceptance statistic is fed; the implementation's hook log must agree on every draw."""
import json
import common as C
import c06


def run(tier):
    chk, failures, api = c06.run_shared("C09", tier)
    for f in failures:
        key = c06.classify(f)
        if f["invariant"]:
            key = "inv:" + f["invariant"]
        chk.violation("trace:" + key, "schedule line not explained (%s): %s scenario=%s" %
                      (key, json.dumps(f["event"]), json.dumps(f["meta"])), f)
    # panics at construction belong to C06; they are not re-reported here
    return chk.finish()


def replay(path):
    return c06.replay(path)
