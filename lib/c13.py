"""C13 - failures in any chain surface as errors of the parallel sampler."""
import json
import common as C
import sampler_check as S
import scenarios


def run(tier):
    chk = C.Check("C13", "model_checking", tier)
    chk.cov["rule"] = ("TLC: Sampler.tla with failure actions (fatal density error at a draw, storage error in record_sample, "
                       "initialisation failure; one and two faulty chains) - NoPanic, WaitReportsFailure, termination; the model "
                       "variant with the unwrap must violate NoPanic (teeth). Real Sampler runs with injected failures (fatal "
                       "density error by evaluation index, failing storage backend, failing init_position, failing model "
                       "construction, recoverable-only faults) x chain index x terminal call (wait_timeout / late abort), "
                       "validated against SamplerTrace whose final step requires an error outcome iff a failure action "
                       "occurred; non-trivial: every fault run; distinct by scenario")
    chk.assumptions = ["errors during the <= 500 initialisation attempts are retried by design; only init_position/model failures "
                       "and draw-time failures are injected", "a failure is 'reported' by Err or by Ok((Some(err), trace))"]
    C.build_harness()
    inv = ["TypeOK", "PrefixOK", "NoPanic", "WaitReportsFailure", "ParkedSilent"]
    for fs in ["FaultsFatal1", "FaultsStorage0", "FaultsInit1", "FaultsTwo"]:
        S.mc(chk, "c2_k1_%s" % fs, "Chains2", 1, 2, 2, 1, fs, False, inv, True)
    # what abort() returns when a chain has failed: with the failure's message already queued the join must report it
    S.mc(chk, "abort_reports", "Chains2", 1, 2, 1, 1, "FaultsStorage0", False, ["AbortReportsFailure", "NoPanic"], False)
    S.mc(chk, "teeth_unwrap", "Chains2", 1, 2, 1, 1, "FaultsFatal1", True, ["NoPanic"], False, expect_violation="NoPanic")
    per = 6 if tier == "quick" else 60
    scs = scenarios.sampler_scenarios(C.seed() * 49979687 + 13, per, "failures")
    scs += scenarios.sampler_scenarios(C.seed() * 49979687 + 14, max(2, per // 3), "density")
    raw = S.record(scs, "c13")
    failures, groups = S.validate_groups(chk, raw, "c13")
    chk.cov["distinct_nontrivial"] = sum(len(r) for r in groups.values())
    for f in failures:
        key = S.failure_key(f)
        kind = f["meta"].get("fail_kind", "density")
        end = f["meta"]["script"][-1]["op"] if f["meta"].get("script") else "?"
        chk.violation("trace:%s:%s:%s" % (key, kind, "abort" if end == "abort" and len(f["meta"]["script"]) < 6 else "wait"),
                      "sampler run with injected failure not explained (%s) at %s; scenario=%s" %
                      (key, json.dumps(f["event"])[:400], json.dumps(f["meta"])[:700]), f)
    return chk.finish()


def replay(path):
    print(open(path).read()[:6000])
    return 0
