"""C13 - failures in any chain surface as errors of the parallel sampler."""
import json
import common as C
import sampler_check as S
import scenarios


def storage_io(chk):
    """A built-in backend whose sink rejects every write for one chain (the chain's CSV file is a link to /dev/full): the
    failure of the final write must come back from finalize - as the Err of that chain's part or as the error slot of the
    trace - and a run without the failing sink must report nothing."""
    import os, c14
    if not os.path.exists("/dev/full"):
        chk.part("storage_io", skipped="no /dev/full")
        return
    ops = [{"op": "record", "tuning": True, "div": False, "upd": False}, {"op": "record", "tuning": False, "div": False, "upd": False},
           {"op": "record", "tuning": False, "div": True, "upd": False}]
    scs = []
    for chains in (1, 2, 3):
        for dev in [None] + list(range(chains)):
            sc = {"backend": "csv", "preset": "diag_nuts", "dim": 2, "num_tune": 1, "num_draws": 2, "chains": chains,
                  "store_warmup": True, "chunk": 2, "full_events": True, "optvecs": True, "specials": False, "precision": 6,
                  "draw_vars": c14.CSV_VARS, "ops": c14.mirror(ops, chains), "workdir": os.path.join(C.WORK, "storage"), "settings": {}}
            if dev is not None:
                sc["devfull"] = dev
            scs.append(sc)
    wd = C.workdir("c13_io")
    os.makedirs(os.path.join(C.WORK, "storage"), exist_ok=True)
    inp, outp = os.path.join(wd, "sc.ndjson"), os.path.join(wd, "out.ndjson")
    with open(inp, "w") as f:
        f.write("\n".join(json.dumps(s) for s in scs) + "\n")
    C.vh(["replay-storage", inp, outp], check=True, timeout=600)
    n = bad = 0
    for line in open(outp):
        d = json.loads(line)
        fin = [e for e in d["result"]["events"] if e.get("e") == "observe" and e.get("kind") == "finalize"]
        rec_err = any(e.get("e") == "record" and not e.get("ok", True) for e in d["result"]["events"])
        reported = rec_err or any((e.get("err") or e.get("fail")) for e in fin) or d["result"]["status"] != "ok"
        dev = d["scenario"].get("devfull")
        n += 1
        if dev is not None and not reported:
            bad += 1
            chk.violation("storage:csv_write_error_not_reported", "the CSV file of chain %d rejects every write, yet finalize reported "
                          "no error: %s" % (dev, json.dumps(fin)[:400]), d)
        if dev is None and reported:
            chk.violation("storage:csv_spurious_error", "error reported without a failing sink: %s" % json.dumps(fin)[:400], d)
    chk.part("storage_io", scenarios=n, unreported=bad)
    chk.cov["evaluations"] += n
    chk.cov["distinct_nontrivial"] += n


def run(tier):
    chk = C.Check("C13", "model_checking", tier)
    chk.cov["rule"] = ("TLC: Sampler.tla with failure actions (fatal density error at a draw, storage error in record_sample, "
                       "initialisation failure; one and two faulty chains) - NoPanic, WaitReportsFailure, termination; the model "
                       "variant with the unwrap must violate NoPanic (teeth). Real Sampler runs with injected failures (fatal "
                       "density error by evaluation index, failing storage backend, failing init_position, failing model "
                       "construction, recoverable-only faults) x chain index x terminal call (wait_timeout / late abort), "
                       "validated against SamplerTrace whose final step requires an error outcome iff a failure action "
                       "occurred; non-trivial: every fault run; distinct by scenario")
    chk.assumptions = ["errors during the <= 500 initialisation attempts are retried by design; only init_position/model failures "
                       "and draw-time failures are injected", "a failure is 'reported' by Err or by Ok((Some(err), trace))"]
    C.build_harness()
    inv = ["TypeOK", "PrefixOK", "NoPanic", "WaitReportsFailure", "ParkedSilent"]
    for fs in ["FaultsFatal1", "FaultsStorage0", "FaultsInit1", "FaultsTwo"]:
        S.mc(chk, "c2_k1_%s" % fs, "Chains2", 1, 2, 2, 1, fs, False, inv, True)
    # what abort() returns when a chain has failed: with the failure's message already queued the join must report it
    S.mc(chk, "abort_reports", "Chains2", 1, 2, 1, 1, "FaultsStorage0", False, ["AbortReportsFailure", "NoPanic"], False)
    S.mc(chk, "teeth_unwrap", "Chains2", 1, 2, 1, 1, "FaultsFatal1", True, ["NoPanic"], False, expect_violation="NoPanic")
    storage_io(chk)
    per = 6 if tier == "quick" else 60
    scs = scenarios.sampler_scenarios(C.seed() * 49979687 + 13, per, "failures")
    scs += scenarios.sampler_scenarios(C.seed() * 49979687 + 14, max(2, per // 3), "density")
    raw = S.record(scs, "c13")
    failures, groups = S.validate_groups(chk, raw, "c13")
    chk.cov["distinct_nontrivial"] = sum(len(r) for r in groups.values())
    for f in failures:
        key = S.failure_key(f)
        kind = f["meta"].get("fail_kind", "density")
        end = f["meta"]["script"][-1]["op"] if f["meta"].get("script") else "?"
        chk.violation("trace:%s:%s:%s" % (key, kind, "abort" if end == "abort" and len(f["meta"]["script"]) < 6 else "wait"),
                      "sampler run with injected failure not explained (%s) at %s; scenario=%s" %
                      (key, json.dumps(f["event"])[:400], json.dumps(f["meta"])[:700]), f)
    return chk.finish()


def replay(path):
    print(open(path).read()[:6000])
    return 0
