"""C10 - parallel sampling is deterministic and independent of scheduling."""
import json
import common as C
import sampler_check as S
import scenarios


def run(tier):
    chk = C.Check("C10", "model_checking", tier)
    chk.cov["rule"] = ("Sampler.tla has no action that writes another chain's private state (rec[i] is the only per-chain log and "
                       "only ChRecord(i) advances it): PrefixOK under all interleavings; real runs with 1..16 cores, 1..8 chains, "
                       "perturbing scheduler and random pause/resume/progress/flush/inspect scripts: every draw of chain i must "
                       "hash to the draw of the sequential single-chain reference run (Full(i)), final traces must be prefixes of "
                       "the reference records; non-trivial run: >= 2 chains and >= 2 commands")
    chk.assumptions = ["the sequential reference reproduces ChainProcess::start through the public API (seed, stream chain+1, "
                       "model.math, new_chain, init_position, set_position, expanded_draw)",
                       "draw identity = FNV hash of position bit patterns; record identity = hash of all stats and draw values",
                       "OS-level nondeterminism below the schedule points is sampled, not controlled"]
    C.build_harness()
    S.mc(chk, "c2_k2_d2", "Chains2", 2, 2, 2, 1, "FaultsNone", False, ["TypeOK", "PrefixOK", "CompleteRun"], False)
    per = 6 if tier == "quick" else 80
    scs = scenarios.sampler_scenarios(C.seed() * 15485863 + 5, per, "none")
    # the same scenarios again on a different number of cores and with another schedule seed
    more = []
    for sc in scs[: len(scs) // 2]:
        sc2 = json.loads(json.dumps(sc))
        sc2["sched_seed"] = sc["sched_seed"] + 1
        sc2["sched_amp_us"] = 800
        more.append(sc2)
    raw = S.record(scs + more, "c10")
    failures, groups = S.validate_groups(chk, raw, "c10")
    chk.cov["distinct_nontrivial"] = S.nontrivial_runs(groups)
    for f in failures:
        key = S.failure_key(f)
        chk.violation("trace:" + key, "sampler run not explained (%s) at %s; scenario=%s" %
                      (key, json.dumps(f["event"])[:400], json.dumps(f["meta"])[:600]), f)
    return chk.finish()


def replay(path):
    print(open(path).read()[:6000])
    return 0
