"""Shared pipeline for C10-C13: model checking of Sampler.tla and trace validation of real Sampler runs."""
import json, os
import common as C
import project, scenarios


def mc(chk, name, chains, cores, draws, maxcmd, maxwait, faults, unwrap, invariants, liveness, timeout=3000,
       expect_violation=None):
    cfg = os.path.join(C.WORK, "smc_%s.cfg" % name)
    with open(cfg, "w") as f:
        f.write("CONSTANTS\n  Chains <- %s\n  NumCores = %d\n  Draws = %d\n  MaxCmd = %d\n  MaxWait = %d\n"
                "  Faults <- %s\n  UnwrapPanics = %s\n  C0 = 0\n  C1 = 1\n  C2 = 2\nSPECIFICATION Spec\nINVARIANTS %s\n%s"
                % (chains, cores, draws, maxcmd, maxwait, faults, "TRUE" if unwrap else "FALSE",
                   " ".join(invariants), "PROPERTY Termination\n" if liveness else ""))
    r = C.tlc("MC_Sampler.tla", cfg, "smc_" + name, timeout=timeout)
    C.require_tlc_ok(r, "Sampler " + name)
    chk.add_tlc(r, "mc_" + name)
    if expect_violation:
        if r["violated"] != expect_violation:
            raise C.ToolError("teeth check failed: %s expected to violate %s, got %s" % (name, expect_violation, r["violated"]))
        chk.part("mc_" + name, teeth="violates %s as it must" % expect_violation)
    elif r["violated"]:
        chk.violation("spec:sampler:%s" % name, "Sampler.tla (%s): %s violated" % (name, r["violated"]), r["out"][-4000:])
    return r


SAFETY = ["TypeOK", "PrefixOK", "QuiescentAgree", "CompleteRun", "NoFailureMeansNoErr", "PauseBound",
          "ParkedSilent", "NoPanic", "WaitReportsFailure"]


def record(scs, name):
    wd = C.workdir("srec_" + name)
    inp, out = os.path.join(wd, "sc.ndjson"), os.path.join(wd, "raw.ndjson")
    with open(inp, "w") as f:
        f.write("\n".join(json.dumps(s) for s in scs) + "\n")
    C.vh(["record-sampler", inp, out], check=True, timeout=7200)
    return out


def validate_groups(chk, raw, name):
    """Project every run, group by (chains, cores, draws), validate each group in one TLC run.
    Returns list of failures (dicts)."""
    groups = {}
    outcomes = {}
    for sc, run_ev in project.read_runs(raw):
        pe = project.project_sampler(sc, run_ev)
        if not pe:
            continue
        g = (pe[0]["chains"], pe[0]["cores"], pe[0]["draws"])
        groups.setdefault(g, []).append((sc, pe))
        oc = pe[-1].get("outcome")
        outcomes[oc] = outcomes.get(oc, 0) + 1
    failures = []
    tot_runs = tot_ev = 0
    for g, runs in sorted(groups.items()):
        cfg = os.path.join(C.WORK, "strace_%s_%d_%d_%d.cfg" % ((name,) + g))
        tmpl = open(os.path.join(C.SPEC, "SamplerTrace.cfg.tmpl")).read()
        with open(cfg, "w") as f:
            f.write(tmpl.replace("@CHAINS@", "Chains%d" % g[0]).replace("@CORES@", str(g[1])).replace("@DRAWS@", str(g[2])))
        fs, st = C.validate_runs("MC_SamplerTrace.tla", cfg, runs, "%s_%d_%d_%d" % ((name,) + g), max_rejections=12)
        chk.cov["states"] += st["states"]
        chk.cov["transitions"] += st["generated"]
        chk.cov["traces_validated_against_impl"] += st["runs_validated"]
        tot_runs += len(runs)
        tot_ev += sum(len(r[1]) for r in runs)
        failures += fs
        chk.part("trace_group_%d_%d_%d" % g, runs=len(runs), validated=st["runs_validated"], tlc_runs=st["tlc_runs"],
                 wall_s=round(st["wall"], 1))
    chk.part("trace_validation_" + name, runs=tot_runs, events=tot_ev, outcomes=outcomes)
    chk.cov["evaluations"] += tot_runs
    for g, runs in list(groups.items())[:2]:
        chk.sample({"scenario": runs[0][0], "first_events": runs[0][1][1:30]})
    return failures, groups


def nontrivial_runs(groups):
    n = 0
    for runs in groups.values():
        for sc, pe in runs:
            cmds = [e for e in pe if e["ev"] == "u_call" and e.get("cmd") in ("pause", "resume", "inspect", "flush", "progress")]
            if len(cmds) >= 2 and pe[0]["chains"] >= 2:
                n += 1
    return n


def failure_key(f):
    ev = f["event"]
    k = ev.get("ev")
    if f["invariant"]:
        return "inv:" + f["invariant"]
    if k == "u_panic":
        return "panic_in_caller"
    if k == "u_hang":
        return "call_never_returned"
    if k == "final":
        return "final:%s" % ev.get("outcome")
    if k == "reset" and ev.get("distinct") is False:
        return "two_chains_produced_identical_draws"
    if k == "ctl_resp" and ev.get("cmd") == "flush":
        return "flush_did_not_reach_every_chain_storage"
    if k == "ch_result" and ev.get("spurious"):
        return "chain_failed_although_nothing_unrecoverable_happened"
    if k == "ch_drawn":
        for e in reversed(f.get("prefix", [])[:-1]):
            if e.get("i") == ev.get("i") and e.get("ev") == "fatal_fired":
                return "unrecoverable_error_swallowed_by_draw"
            if e.get("i") == ev.get("i") and e.get("ev") in ("ch_check", "ch_recorded"):
                break
        return "draw_differs_from_sequential_run"
    return "unexplained:%s" % k
