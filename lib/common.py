"""Shared machinery for the nuts-rs model-based checks: harness build, TLC runs,
evidence files, known findings, exit protocol."""
import json, os, re, shutil, subprocess, sys, time, hashlib

VERIF = os.path.dirname(os.path.dirname(os.path.abspath(__file__)))
SPEC = os.path.join(VERIF, "spec")
# (the three overrides let a second instance - e.g. one that tries a modified copy of the repository through a copy of
# the harness - run next to the registered commands without sharing scratch files, binaries or evidence)
WORK = os.environ.get("VERIF_WORK") or os.path.join(VERIF, "work")
HARNESS = os.environ.get("VERIF_HARNESS") or os.path.join(VERIF, "harness")
VH = os.path.join(HARNESS, "target", "release", "vh")
EVIDENCE = os.environ.get("VERIF_EVIDENCE") or os.path.join(VERIF, "evidence")
REPLAYS = os.path.join(WORK, "replays")
KNOWN = os.path.join(VERIF, "known_findings.jsonl")
TLC_WORKERS = int(os.environ.get("VERIF_TLC_WORKERS", "8"))


class ToolError(Exception):
    pass


def seed():
    try:
        return int(os.environ.get("VERIF_SEED", "0"))
    except ValueError:
        return 0


def workdir(name):
    d = os.path.join(WORK, name)
    shutil.rmtree(d, ignore_errors=True)
    os.makedirs(d, exist_ok=True)
    return d


def build_harness():
    """Rebuild the harness (and nuts-rs with hooks on) from /repo's working tree."""
    env = dict(os.environ)
    env["CARGO_NET_OFFLINE"] = "true"
    t0 = time.time()
    p = subprocess.run(["cargo", "build", "--release", "--offline", "--quiet"], cwd=HARNESS,
                       env=env, stdout=subprocess.PIPE, stderr=subprocess.STDOUT, text=True)
    if p.returncode != 0:
        sys.stderr.write(p.stdout[-4000:])
        raise ToolError("harness build failed")
    return time.time() - t0


def vh(args, timeout=3600, stdin=None, env=None, check=False):
    e = dict(os.environ)
    if env:
        e.update(env)
    p = subprocess.run([VH] + list(args), stdout=subprocess.PIPE, stderr=subprocess.PIPE, text=True,
                       timeout=timeout, input=stdin, env=e)
    if check and p.returncode not in (0, 1):
        sys.stderr.write(p.stderr[-4000:])
        raise ToolError("vh %s exited %d" % (args[0], p.returncode))
    return p


TLC_STATS = re.compile(r"(\d+) states generated, (\d+) distinct states found")


def tlc(module, cfg, name, workers=None, timeout=900, simulate=None, depth=None, env=None,
        java_opts=None, coverage=False, extra=None, deque=False, seed_arg=None, out_path=None):
    """Run TLC; returns dict(rc, out, generated, distinct, violated, error)."""
    meta = workdir("tlc_" + name)
    cmd = ["timeout", str(timeout), "tlc", "-metadir", meta, "-cleanup", "-noGenerateSpecTE",
           "-config", cfg]
    if simulate is not None:
        cmd += ["-workers", str(workers or 1), "-simulate", "num=%d" % simulate]
        if depth:
            cmd += ["-depth", str(depth)]
        if seed_arg is not None:
            cmd += ["-seed", str(seed_arg)]
    else:
        cmd += ["-workers", str(workers or TLC_WORKERS)]
    if coverage:
        cmd += ["-coverage", "1"]
    if extra:
        cmd += extra
    cmd.append(module)
    e = dict(os.environ)
    jopts = java_opts or ""
    if deque:
        jopts += " -Xss1g -Dtlc2.tool.queue.IStateQueue=StateDeque"
    if jopts:
        e["JAVA_TOOL_OPTIONS"] = jopts.strip()
    if env:
        e.update(env)
    t0 = time.time()
    if out_path:
        # large outputs (one REPLAY line per behaviour): stream to a file, keep only the non-REPLAY lines in memory
        with open(out_path, "w") as fo:
            p = subprocess.run(cmd, cwd=SPEC, stdout=fo, stderr=subprocess.STDOUT, text=True, env=e)
        keep = []
        with open(out_path) as fi:
            for line in fi:
                if '<<"REPLAY", ' not in line:
                    keep.append(line)
        out = "".join(keep)
    else:
        p = subprocess.run(cmd, cwd=SPEC, stdout=subprocess.PIPE, stderr=subprocess.STDOUT, text=True, env=e)
        out = p.stdout
    shutil.rmtree(meta, ignore_errors=True)
    res = {"rc": p.returncode, "out": out, "generated": 0, "distinct": 0, "violated": None,
           "error": None, "wall": time.time() - t0, "cmd": " ".join(cmd)}
    m = None
    for m in TLC_STATS.finditer(out):
        pass
    if m:
        res["generated"], res["distinct"] = int(m.group(1)), int(m.group(2))
    mv = re.search(r"Invariant (\S+) is violated", out)
    if mv:
        res["violated"] = mv.group(1)
    elif "is violated" in out or "Temporal properties were violated" in out:
        mv2 = re.search(r"Error: (.*violated.*)", out)
        res["violated"] = mv2.group(1) if mv2 else "property"
    if p.returncode == 124:
        res["error"] = "timeout"
    elif res["violated"] is None and "Model checking completed. No error has been found" not in out \
            and simulate is None and p.returncode != 0:
        res["error"] = "tlc failed"
    if simulate is not None and p.returncode not in (0,) and res["violated"] is None:
        if "Error:" in out:
            res["error"] = "tlc failed"
    return res


def require_tlc_ok(r, what):
    if r["error"]:
        sys.stderr.write(r["out"][-3000:])
        raise ToolError("%s: %s" % (what, r["error"]))


def replay_lines(out):
    return [l for l in out.splitlines() if '<<"REPLAY", ' in l]


def load_known(pid):
    """known_findings.txt lines:
         known: property=<id> key=<key> <what fails>
         fixed: property=<id> <commit> <what failed>
    `known` entries suppress exactly the violation with that key; `fixed` entries suppress nothing."""
    items = []
    path = os.path.join(VERIF, "known_findings.txt")
    if os.path.exists(path):
        for line in open(path):
            line = line.strip()
            m = re.match(r"known: property=(\S+) key=(\S+) (.*)", line)
            if m and m.group(1) == pid:
                items.append({"status": "known", "key": m.group(2), "what": m.group(3)})
    return items


class Check:
    def __init__(self, pid, level, tier):
        self.pid, self.level, self.tier = pid, level, tier
        self.t0 = time.time()
        self.cov = {"evaluations": 0, "distinct_nontrivial": 0, "rule": "", "samples": [],
                    "states": 0, "transitions": 0, "traces_validated_against_impl": 0,
                    "exhaustive": False, "parts": {}}
        self.assumptions = []
        self.violations = []      # (key, description, replay-payload)
        self.known_hits = []
        self.known = load_known(pid)
        os.makedirs(REPLAYS, exist_ok=True)
        os.makedirs(EVIDENCE, exist_ok=True)

    def add_tlc(self, r, part):
        self.cov["states"] += r["distinct"]
        self.cov["transitions"] += r["generated"]
        self.cov["parts"][part] = {"distinct_states": r["distinct"], "states_generated": r["generated"],
                                   "wall_s": round(r["wall"], 1), "cmd": r["cmd"]}

    def part(self, name, **kw):
        self.cov["parts"].setdefault(name, {}).update(kw)

    def sample(self, s, limit=6):
        if len(self.cov["samples"]) < limit:
            self.cov["samples"].append(s)

    def violation(self, key, desc, payload=None):
        """Report a violation unless known_findings lists this key as known."""
        for k in self.known:
            if k.get("status") == "known" and k.get("key") == key:
                if key not in [h[0] for h in self.known_hits]:
                    self.known_hits.append((key, k.get("what", desc)))
                return False
        self.violations.append((key, desc, payload))
        return True

    def finish(self):
        wall = time.time() - self.t0
        ev = {"property_id": self.pid, "tier": self.tier, "seed": seed(), "level": self.level,
              "coverage": self.cov, "assumptions": self.assumptions, "wall_s": round(wall, 2),
              "violations": len(self.violations),
              "known_findings_hit": [k for k, _ in self.known_hits]}
        if not self.cov["samples"]:
            self.cov["samples"] = ["(no sample recorded)"]
        with open(os.path.join(EVIDENCE, self.pid + ".json"), "w") as f:
            json.dump(ev, f, indent=1, default=str)
        for key, what in self.known_hits:
            print("KNOWN-FINDING: property=%s %s [%s]" % (self.pid, what, key))
        if self.violations:
            key, desc, payload = self.violations[0]
            h = hashlib.sha1((key + desc).encode()).hexdigest()[:10]
            path = os.path.join(REPLAYS, "%s_%s.json" % (self.pid, h))
            with open(path, "w") as f:
                json.dump({"property": self.pid, "key": key, "description": desc, "payload": payload,
                           "all": [(k, d) for k, d, _ in self.violations[:50]]}, f, indent=1, default=str)
            for k, d, _ in self.violations[:10]:
                print("  violation[%s]: %s" % (k, d[:600]))
            print("VIOLATION property=%s replay=%s" % (self.pid, path))
            return 1
        print("OK property=%s tier=%s wall=%.1fs" % (self.pid, self.tier, wall))
        return 0


def validate_trace(module, cfg, trace_path, name, timeout=1800, xmx="8g"):
    """Trace validation run. Returns dict(accepted, line, record, states, out)."""
    r = tlc(module, cfg, "trace_" + name, workers=1, timeout=timeout, deque=True,
            env={"TRACE": trace_path}, java_opts="-Xmx" + xmx)
    out = r["out"]
    acc = "Model checking completed. No error has been found" in out
    line, rec = None, None
    m = re.search(r'"TRACE-REJECTED at line",\s*(\d+),\s*(.*?)>>\s+FALSE', out, re.S)
    if m:
        line = int(m.group(1))
        rec = re.sub(r"\s+", " ", m.group(2))[:1500]
    inv = r["violated"]
    if not acc and line is None and inv is None:
        sys.stderr.write(out[-3000:])
        raise ToolError("trace validation run failed (%s): %s" % (name, r["error"] or "no verdict"))
    return {"accepted": acc, "line": line, "record": rec, "invariant": inv, "states": r["distinct"],
            "generated": r["generated"], "out": out, "wall": r["wall"], "cmd": r["cmd"], "distinct": r["distinct"]}


def validate_runs(module, cfg, runs, name, max_rejections=8, timeout=1800):
    """runs: list of (meta, [projected events]) - each run starts with a reset event.
    Validates all runs in one TLC run; on a rejection records it, drops everything up to and including
    the offending run and continues, so the rest of the log is still examined.
    Returns (failures, stats) with failures = [dict(run, meta, line_in_run, record, invariant, prefix)]."""
    failures = []
    stats = {"states": 0, "generated": 0, "runs_validated": 0, "events": 0, "tlc_runs": 0, "wall": 0.0, "cmd": ""}
    start = 0
    wd = workdir("trace_" + name)
    while start < len(runs) and len(failures) <= max_rejections:
        path = os.path.join(wd, "trace.ndjson")
        owner = []
        with open(path, "w") as f:
            for ri in range(start, len(runs)):
                for k, e in enumerate(runs[ri][1]):
                    f.write(json.dumps(e) + "\n")
                    owner.append((ri, k))
        if not owner:
            break
        r = validate_trace(module, cfg, path, name, timeout=timeout)
        stats["tlc_runs"] += 1
        stats["states"] += r["states"]
        stats["generated"] += r["generated"]
        stats["wall"] += r["wall"]
        stats["cmd"] = r["cmd"]
        if r["accepted"]:
            stats["runs_validated"] += len(runs) - start
            stats["events"] += len(owner)
            break
        line = r["line"] if r["line"] is not None else r["states"]
        line = max(1, min(line, len(owner)))
        ri, k = owner[line - 1]
        failures.append({"run": ri, "meta": runs[ri][0], "line_in_run": k, "record": r["record"],
                         "event": runs[ri][1][k], "invariant": r["invariant"],
                         "prefix": runs[ri][1][max(0, k - 12):k + 1]})
        stats["runs_validated"] += ri - start
        stats["events"] += line
        start = ri + 1
    shutil.rmtree(wd, ignore_errors=True)
    return failures, stats
