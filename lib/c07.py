"""C07: step-size adaptation.
 1. TLC: StepSizeSearch (all probe outcomes) - the search ends with a bracketing step or falls back
 2. code->spec: the search hook events of real chains (initial search + re-run) validated against
    StepSizeSearchTrace: direction, factor-two probes, stop at the first crossing probe, installed step =
    last probed step, estimator re-created from it, fall-back leaves the configured step
 3. TLC: StepSizeUpdate (all pairs of pointwise ordered acceptance histories, exact rationals) - monotone,
    bounded; spec->code: the real DualAverage / Adam must follow the exact hbar / smoothed-error sequences
 4. routing + boundedness on real chains: AdaptScheduleTrace lines (shared with C06)
"""
import json, os
import common as C
import project, scenarios
from c03 import record_runs


def search_mc(chk, tier):
    cfg = os.path.join(C.WORK, "c07_search.cfg")
    mt = 12 if tier == "quick" else 100
    with open(cfg, "w") as f:
        f.write("CONSTANT MaxTries = %d\nSPECIFICATION SSSpec\nINVARIANT SearchInv\nCHECK_DEADLOCK FALSE\n" % mt)
    r = C.tlc("MC_StepSizeSearch.tla", cfg, "c07_search", timeout=1200)
    C.require_tlc_ok(r, "StepSizeSearch")
    chk.add_tlc(r, "search_mc")
    if r["violated"]:
        chk.violation("spec:search", "StepSizeSearch invariant %s violated" % r["violated"], r["out"][-3000:])
    for inv in ["NoFound", "NoExhaust", "NoFallback"]:
        with open(cfg, "w") as f:
            f.write("CONSTANT MaxTries = 4\nSPECIFICATION SSSpec\nINVARIANT %s\nCHECK_DEADLOCK FALSE\n" % inv)
        rv = C.tlc("MC_StepSizeSearch.tla", cfg, "c07_vac", timeout=300)
        if rv["violated"] != inv:
            raise C.ToolError("vacuity guard %s not reachable in StepSizeSearch" % inv)


def search_inductive(chk):
    """Apalache: IndInv of StepSizeSearchInd is inductive for every MaxTries (base case and step), so the
    bracketing property does not depend on the bound TLC explores."""
    import subprocess, time
    out_dir = C.workdir("c07_apalache")
    for label, args in [("base", ["--init=Init", "--length=0"]), ("step", ["--init=IndInit", "--length=1"])]:
        t0 = time.time()
        cmd = ["timeout", "900", "apalache-mc", "check", "--out-dir=" + out_dir, "--cinit=ConstInit", "--inv=IndInv"] + args + \
              ["StepSizeSearchInd.tla"]
        p = subprocess.run(cmd, cwd=C.SPEC, stdout=subprocess.PIPE, stderr=subprocess.STDOUT, text=True)
        ok = "EXITCODE: OK" in p.stdout
        chk.part("search_inductive_" + label, ok=ok, wall_s=round(time.time() - t0, 1), cmd=" ".join(cmd))
        if "Checker has found an error" in p.stdout:
            chk.violation("spec:search_inductive:" + label, "IndInv of StepSizeSearchInd is not inductive (%s)" % label, p.stdout[-3000:])
        elif not ok:
            raise C.ToolError("apalache-mc failed (%s): %s" % (label, p.stdout[-600:]))
    import shutil
    shutil.rmtree(out_dir, ignore_errors=True)


def update_replay(chk, tier):
    cfg = os.path.join(C.WORK, "c07_update.cfg")
    with open(cfg, "w") as f:
        f.write("CONSTANTS\n  Grid <- %s\n  Targets <- %s\n  T0s = {10, 3}\n  Steps = %d\nSPECIFICATION SUSpec\n"
                "INVARIANTS UpdateInv Emit\nCHECK_DEADLOCK FALSE\n" %
                (("GridQuick", "TargetsQuick", 4) if tier == "quick" else ("GridFull", "TargetsFull", 4)))
    r = C.tlc("MC_StepSizeUpdate.tla", cfg, "c07_update", timeout=3000, workers=8)
    C.require_tlc_ok(r, "StepSizeUpdate")
    chk.add_tlc(r, "update_mc")
    if r["violated"]:
        chk.violation("spec:update", "StepSizeUpdate invariant %s violated" % r["violated"], r["out"][-3000:])
        return
    lines = C.replay_lines(r["out"])
    summ = os.path.join(C.WORK, "c07_update.json")
    C.vh(["replay-stepsize", "-", summ], stdin="\n".join(lines) + "\n", timeout=3000)
    s = json.load(open(summ))
    chk.part("update_replay", cases=s["cases"], strict_pairs=s["strict_pairs"], checks=s["checks"], failures=s["failures"])
    chk.cov["evaluations"] += s["checks"]
    chk.cov["distinct_nontrivial"] += s["strict_pairs"]
    chk.cov["traces_validated_against_impl"] += s["cases"]
    for x in s["samples"][:1]:
        chk.sample({"history_pair": x})
    if s["cases"] == 0:
        raise C.ToolError("no history pairs were replayed")
    if s["failures"]:
        f0 = s["first_failures"][0]["mismatch"]
        chk.violation("update:%s" % " ".join(f0.split(" ")[:6]), "step-size estimator deviates: " + f0, s["first_failures"])


def classify(f):
    ev = f["event"]
    if ev.get("e") == "end":
        if ev.get("kexp") == 9999:
            return "installed_step_not_a_probed_step"
        if ev.get("est") == "none":
            return "estimator_neither_recreated_nor_kept"
        return "end:%s" % ev.get("outcome")
    if ev.get("e") == "try":
        if not ev.get("accok", True):
            return "probe_acceptance_is_not_min_1_exp_energy_change"
        if ev.get("kexp") == 9999:
            return "probe_not_factor_two"
        return "probe_sequence"
    return "unexplained:%s" % ev.get("e")


def search_traces(chk, tier):
    n = 240 if tier == "quick" else 3000
    scs = scenarios.search_scenarios(C.seed() * 6007 + 11, n)
    raw = record_runs(scs, "c07")
    runs = []
    searches = tries = found = other = research = 0
    outcomes = {}
    for sc, run_ev in project.read_runs(raw):
        pe = project.project_search(sc, run_ev)
        if len(pe) > 1:
            runs.append((sc, pe))
            k = sum(1 for x in pe if x["e"] == "start")
            searches += k
            research += max(0, k - 1)
            tries += sum(1 for x in pe if x["e"] == "try")
            for x in pe:
                if x["e"] == "end":
                    outcomes[x["outcome"]] = outcomes.get(x["outcome"], 0) + 1
    failures, st = C.validate_runs("StepSizeSearchTrace.tla", "StepSizeSearchTrace.cfg", runs, "c07", max_rejections=20)
    chk.cov["states"] += st["states"]
    chk.cov["transitions"] += st["generated"]
    chk.cov["traces_validated_against_impl"] += st["runs_validated"]
    chk.part("search_trace_validation", chains=len(runs), chains_validated=st["runs_validated"], searches=searches,
             reruns=research, probes=tries, outcomes=outcomes, tlc_runs=st["tlc_runs"], wall_s=round(st["wall"], 1), cmd=st["cmd"])
    chk.cov["evaluations"] += tries
    chk.cov["distinct_nontrivial"] += searches
    for sc, pe in runs[:2]:
        chk.sample({"scenario": sc, "lines": pe[:8]})
    os.remove(raw)
    for f in failures:
        key = classify(f)
        if f["invariant"]:
            key = "inv:" + f["invariant"]
        chk.violation("search:" + key, "search event not explained (%s): %s prefix=%s scenario=%s" %
                      (key, json.dumps(f["event"]), json.dumps(f["prefix"][-4:]), json.dumps(f["meta"])), f)
    for need in ["found", "fallback"]:
        if not outcomes.get(need) and not chk.violations:
            raise C.ToolError("no search ended with outcome %s: scenarios too weak" % need)


def run(tier):
    import c06
    chk = C.Check("C07", "model_checking", tier)
    chk.cov["rule"] = ("(search) every hook event of StepSizeStrategy::init of every recorded chain must be explained by "
                       "StepSizeSearchTrace; a search is non-trivial if it made at least one probe; (update) every pair of "
                       "pointwise ordered acceptance histories over the grid is run through the real DualAverage and Adam and "
                       "compared with the exact hbar / smoothed-error sequences of StepSizeUpdate; non-trivial: the histories "
                       "differ; (routing, bounds) AdaptScheduleTrace lines as in C06")
    chk.assumptions = [
        "harness-side predicates (declared): acceptance compared with the target in f64 from the logged bit patterns; step = initial*2^k "
        "bit for bit; estimator step equal to the installed step to 1e-12; iterate / weighted-average formulas to 1e-9 in log space",
        "monotonicity is decided on the grid {0, 1/2, 4/5, 1} (thorough: + 1/4) for 4 updates and 5 parameter sets, not for all reals",
        "the acceptance of a search probe and the two acceptance statistics of a draw are recomputed harness-side from the energies the leapfrog hook reports (min(1, exp(E0 - E)), 1e-12)",
    ]
    C.build_harness()
    search_mc(chk, tier)
    search_inductive(chk)
    update_replay(chk, tier)
    search_traces(chk, tier)
    # routing of the statistics and boundedness of every step size on real chains
    sub, failures, api = c06.run_shared("C07", tier, n=96 if tier == "quick" else 600)
    for k in ["states", "transitions", "traces_validated_against_impl", "evaluations", "distinct_nontrivial"]:
        chk.cov[k] += sub.cov[k]
    for name, kw in sub.cov["parts"].items():
        chk.part("routing_" + name, **kw)
    for f in failures:
        key = c06.classify(f)
        if any(t in key for t in ("step_unbounded", "wrong_statistic_value", "schedule_mismatch", "step_is_not_the_documented_update", "acceptance_statistic_is_not", "reported_averaged_step")):
            ev = f["event"]
            if "schedule_mismatch" in key and ev.get("e") == "adapt":
                key = "routing:%s:%s" % (ev.get("branch"), ev.get("fedcalls"))
            chk.violation("trace:" + key, "schedule line not explained (%s): %s scenario=%s" %
                          (key, json.dumps(f["event"]), json.dumps(f["meta"])), f)
    return chk.finish()


def replay(path):
    print(open(path).read()[:6000])
    return 0
