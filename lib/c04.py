"""C04 - only the momentum sentence ("standard normal in the whitened space and independent of earlier
draws"), as a data-flow property of the chain's random stream:
 1. TLC: Momentum (NoReuse / Ordered over all interval placements)
 2. code->spec: every momentum hook event of real NUTS chains is located in the chain's ChaCha stream by the
    harness (the standard-normal transform of the words must equal the velocity bit for bit) and the
    momentum / first-leapfrog / search / call-boundary sequence is validated against MomentumTrace
The distributional sentence (posterior moments, coverage, no divergences) is not decided by this technique.
"""
import json, os
import common as C
import project, scenarios
from c03 import record_runs


def momentum_traces(chk, n, name="c04", prefix="trace:"):
    """Record n NUTS chains, locate every momentum in the chain's stream and validate against MomentumTrace."""
    scs = scenarios.momentum_scenarios(C.seed() * 4099 + 17, n)
    raw = record_runs(scs, name)
    runs = []
    located = total = searches = 0
    dims = set()
    for sc, run_ev in project.read_runs(raw):
        pe = project.project_momentum(sc, run_ev)
        if len(pe) > 1:
            runs.append((sc, pe))
            for x in pe:
                if x["e"] == "momentum":
                    total += 1
                    if x["found"] == "yes":
                        located += 1
                        dims.add(x["dim"])
                elif x["e"] == "search":
                    searches += 1
    def has(pe, kinds):
        return any(x["e"] == "momentum" and x["found"] in kinds for x in pe)
    nosync_runs = [r for r in runs if has(r[1], ("nosync",))]
    bad_runs = [r for r in runs if has(r[1], ("scaled", "rescaled", "affine", "partial", "no", "otherdist"))]
    if nosync_runs and not bad_runs:
        # no 32-byte seed handed to new_chain reproduces the first momentum, not even up to scale: the harness cannot tell
        # where the chain's stream is (a re-seeding refactor, or a momentum that is not a function of the stream at all)
        raise C.ToolError("%d chains could not be related to any candidate stream (synchronisation lost)" % len(nosync_runs))
    # chains that cannot be synchronised (dimension < 2 gives no scale-free test) are left out when others show what is wrong
    runs = [r for r in runs if not has(r[1], ("nosync",))]
    failures, st = C.validate_runs("MomentumTrace.tla", "MomentumTrace.cfg", runs, name, max_rejections=20)
    chk.cov["states"] += st["states"]
    chk.cov["transitions"] += st["generated"]
    chk.cov["traces_validated_against_impl"] += st["runs_validated"]
    chk.part("momentum_trace_validation" if name != "c04" else "trace_validation", chains=len(runs), chains_validated=st["runs_validated"], momentum_events=total, located=located,
             dimensions=sorted(dims), searches=searches, tlc_runs=st["tlc_runs"], wall_s=round(st["wall"], 1), cmd=st["cmd"])
    chk.cov["evaluations"] += total
    chk.cov["distinct_nontrivial"] += located
    if total == 0:
        raise C.ToolError("no momentum events recorded")
    for sc, pe in runs[:2]:
        chk.sample({"scenario": sc, "lines": pe[:8]})
    os.remove(raw)
    for f in failures:
        ev = f["event"]
        if ev.get("e") == "momentum":
            if not ev.get("resample"):
                key = "momentum_not_redrawn"
            elif not ev.get("ke_ok"):
                key = "kinetic_energy_not_half_v2"
            elif ev.get("found") in ("scaled", "rescaled", "affine"):
                key = "velocity_is_a_rescaled_standard_normal_sample"
            elif ev.get("found") == "partial":
                key = "only_part_of_the_momentum_was_redrawn"
            elif ev.get("found") in ("no", "otherdist"):
                key = "velocity_is_not_a_standard_normal_sample_of_the_stream"
            elif ev.get("found") == "yes":
                key = "stream_words_reused_or_too_few"
            else:
                key = "momentum_unlocated"
        elif ev.get("e") == "leap":
            key = "leapfrog_before_momentum"
        else:
            key = "unexplained:%s" % ev.get("e")
        chk.violation(prefix + key, "momentum trace not explained (%s): %s prefix=%s scenario=%s" %
                      (key, json.dumps(ev), json.dumps(f["prefix"][-4:]), json.dumps(f["meta"])), f)


def run(tier):
    chk = C.Check("C04", "other", tier)
    chk.cov["rule"] = ("every momentum event (trajectory start or step-size search) of every recorded NUTS chain: the velocity must be, bit "
                       "for bit, the standard-normal transform (scale one) of a word interval of the chain's own random stream that "
                       "starts at or after the end of every earlier momentum's interval; no leapfrog in an API call before a momentum "
                       "was drawn in that call; kinetic energy = 1/2 |v|^2; non-trivial: every located momentum of dimension >= 1")
    chk.assumptions = [
        "ONLY the last sentence of C04 is decided; the distributional sentence (means, variances, quantile coverage, no divergences) is "
        "statistics and outside what a TLA+ specification with conformance checking can decide (DESIGN.md 5/C04)",
        "that ChaCha8 words are independent uniform bits and that rand_distr::StandardNormal maps them to N(0,1) is trusted",
        "the chain's stream is identified as ChaCha8Rng::from_seed of one of the 32-byte seeds the outer RNG handed to new_chain",
    ]
    C.build_harness()
    cfg = os.path.join(C.WORK, "c04_mc.cfg")
    with open(cfg, "w") as f:
        f.write("CONSTANTS\n  MaxWord = %d\n  MaxCalls = 2\nSPECIFICATION MCSpec\nINVARIANT MomentumInv\nCHECK_DEADLOCK FALSE\n"
                % (10 if tier == "quick" else 16))
    r = C.tlc("MC_Momentum.tla", cfg, "c04_mc", timeout=1800)
    C.require_tlc_ok(r, "Momentum")
    chk.add_tlc(r, "momentum_mc")
    if r["violated"]:
        chk.violation("spec:momentum", "Momentum invariant %s violated" % r["violated"], r["out"][-3000:])
    with open(cfg, "w") as f:
        f.write("CONSTANTS\n  MaxWord = 8\n  MaxCalls = 1\nSPECIFICATION MCSpec\nINVARIANT TwoDraws\nCHECK_DEADLOCK FALSE\n")
    rv = C.tlc("MC_Momentum.tla", cfg, "c04_vac", timeout=300)
    if rv["violated"] != "TwoDraws":
        raise C.ToolError("vacuity guard TwoDraws not reachable")
    momentum_traces(chk, 90 if tier == "quick" else 6000)
    return chk.finish()


def replay(path):
    print(open(path).read()[:6000])
    return 0
