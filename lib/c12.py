"""C12 - pause stops chains within a bounded number of draws; resume loses nothing."""
import json, random
import common as C
import sampler_check as S
import scenarios


def pause_scenarios(seed, per):
    rnd = random.Random(seed)
    scs = scenarios.sampler_scenarios(seed, per, "none")
    for sc in scs:
        if sc.get("keep_script"):      # the long-pause runs keep their own script and delays
            continue
        ops = []
        n = rnd.choice([1, 1, 2, 3])
        for _ in range(n):
            ops.append({"op": "sleep", "us": rnd.choice([0, 20, 100, 400, 1500, 6000])})
            ops.append({"op": "pause"})
            if rnd.random() < 0.3:
                ops.append({"op": "pause"})
            ops.append({"op": "sleep", "us": rnd.choice([0, 200, 3000, 20000])})
            ops.append({"op": "progress"})
            if rnd.random() < 0.5:
                ops.append({"op": "sleep", "us": 15000})
                ops.append({"op": "progress"})
                ops.append({"op": "inspect"})
            ops.append({"op": "resume"})
            if rnd.random() < 0.3:
                ops.append({"op": "resume"})
        if rnd.random() < 0.25:
            ops.append({"op": "pause"})
            ops.append({"op": "sleep", "us": 10000})
            ops.append({"op": "abort"})
        else:
            for _ in range(6):
                ops.append({"op": "wait", "ms": 4000})
            ops.append({"op": "abort"})
        sc["script"] = ops
        # slow densities so that pauses land inside draws
        sc["delays"] = [[c, rnd.choice([50, 200, 600])] for c in range(sc["settings"]["num_chains"])]
    return scs


def run(tier):
    chk = C.Check("C12", "model_checking", tier)
    chk.cov["rule"] = ("TLC: PauseBound (draws recorded since pause() returned <= commands queued for the chain at that moment, "
                       "window closes when resume() is called), ParkedSilent, CompleteRun over all placements of pause/resume "
                       "relative to every chain-loop point; real runs with slow densities and pause/resume scripts at random "
                       "offsets validated against SamplerTrace (same invariants evaluated on every state of the real execution, "
                       "final trace equal to the uninterrupted reference); non-trivial: run with >= 1 pause and >= 2 chains")
    chk.assumptions = ["pause timing relative to the chain loop is sampled by sleeps and the perturbing scheduler in the real code; "
                       "exhaustive only in the model"]
    C.build_harness()
    inv = ["TypeOK", "PrefixOK", "PauseBound", "ParkedSilent", "CompleteRun", "QuiescentAgree"]
    S.mc(chk, "c2_k1_d3", "Chains2", 1, 3, 3, 1, "FaultsNone", False, inv, False)
    S.mc(chk, "c2_k2_d2", "Chains2", 2, 2, 3, 1, "FaultsNone", False, inv, True)
    if tier == "thorough":
        S.mc(chk, "c3_k1_d2", "Chains3", 1, 2, 3, 1, "FaultsNone", False, inv, False, timeout=6000)
    per = 5 if tier == "quick" else 60
    raw = S.record(pause_scenarios(C.seed() * 32452843 + 9, per), "c12")
    failures, groups = S.validate_groups(chk, raw, "c12")
    chk.cov["distinct_nontrivial"] = S.nontrivial_runs(groups)
    for f in failures:
        key = S.failure_key(f)
        chk.violation("trace:" + key, "sampler run not explained (%s) at %s; scenario=%s" %
                      (key, json.dumps(f["event"])[:400], json.dumps(f["meta"])[:600]), f)
    return chk.finish()


def replay(path):
    print(open(path).read()[:6000])
    return 0
