"""C03 - every draw is a real trajectory state and its statistics describe it.
 1. TLC: NutsTree invariants (DoneOK, StructOK, StepsOK, MindepthOK) over all behaviours for a wide
    set of tree options (mindepth, extra doublings, check_turning, dim 0)
 2. code->spec: hook traces of real chains (3 NUTS presets x kinetic energies x options x densities x
    fault plans) validated line by line against NutsTreeTrace
"""
import json, os, shutil
import common as C
import project, scenarios


def record_runs(scs, name, threads=8):
    wd = C.workdir("rec_" + name)
    inp, out = os.path.join(wd, "sc.ndjson"), os.path.join(wd, "raw.ndjson")
    # the harness keeps the events of a batch in memory until it is written: record in batches
    batch = 150
    with open(out, "w") as fo:
        for b in range(0, len(scs), batch):
            part = os.path.join(wd, "part.ndjson")
            with open(inp, "w") as f:
                f.write("\n".join(json.dumps(s) for s in scs[b:b + batch]) + "\n")
            C.vh(["record-chains", inp, part], env={"VH_THREADS": str(threads)}, check=True, timeout=7200)
            with open(part) as fi:
                shutil.copyfileobj(fi, fo)
            os.remove(part)
    return out


def tree_mc(chk, tier):
    cfg = os.path.join(C.WORK, "c03_tree.cfg")
    with open(cfg, "w") as f:
        f.write("CONSTANTS\n  Weights = {1}\n  Configs <- ConfigsWide\n  AllowDiv = TRUE\n  AllowErr = TRUE\n  Emit = FALSE\n"
                "SPECIFICATION MCSpec\nINVARIANTS StructOK DoneOK StepsOK MindepthOK\nCHECK_DEADLOCK FALSE\n")
    r = C.tlc("MC_NutsTree.tla", cfg, "c03_tree", timeout=3000)
    C.require_tlc_ok(r, "NutsTree wide")
    chk.add_tlc(r, "tree_wide_mc")
    if r["violated"]:
        chk.violation("spec:tree", "NutsTree invariant %s violated in model checking" % r["violated"], r["out"][-3000:])


def pool_cfg(path, steps, spec, props, handles=3, cells=3, rule="last"):
    with open(path, "w") as f:
        f.write("CONSTANTS\n  NHandles = %d\n  Values = {1, 2}\n  MaxCells = %d\n  DropRule = \"%s\"\n  Steps = %d\n"
                "SPECIFICATION %s\n%s\nCHECK_DEADLOCK FALSE\n" % (handles, cells, rule, steps, spec, props))


def state_pool(chk, tier):
    """StatePool.tla: invariants over all call sequences of the pooled state storage, then every call sequence of bounded
    length (and sampled longer ones) replayed into the real StatePool / State."""
    cfg = os.path.join(C.WORK, "c03_pool.cfg")
    inv = "INVARIANT PoolInv\nPROPERTIES Stable FreshExclusive MutIffSole Economy"
    pool_cfg(cfg, 0, "MCSpec", inv, handles=3 if tier == "quick" else 4, cells=3 if tier == "quick" else 4)
    r = C.tlc("MC_StatePool.tla", cfg, "c03_pool", timeout=3000)
    C.require_tlc_ok(r, "StatePool")
    chk.add_tlc(r, "state_pool_mc")
    if r["violated"]:
        chk.violation("spec:pool", "StatePool property %s violated in model checking" % r["violated"], r["out"][-3000:])
    # vacuity: the situations the invariants talk about are reachable, and a drop that recycles a shared cell is rejected
    for guard in ("SeenShared", "SeenRefused", "SeenRecycled", "SeenOrphan"):
        pool_cfg(cfg, 0, "MCSpec", "INVARIANT " + guard)
        rv = C.tlc("MC_StatePool.tla", cfg, "c03_pool_v", timeout=600)
        if rv["violated"] != guard:
            raise C.ToolError("StatePool vacuity guard %s not reachable" % guard)
    pool_cfg(cfg, 0, "MCSpec", "INVARIANT PoolInv", rule="any")
    rv = C.tlc("MC_StatePool.tla", cfg, "c03_pool_m", timeout=600)
    if rv["violated"] != "PoolInv":
        raise C.ToolError("StatePool mutant (drop recycles a shared cell) not rejected by PoolInv")
    plans = [("exhaustive", dict(steps=5 if tier == "quick" else 6), None)]
    if tier == "quick":
        plans.append(("sampled", dict(steps=14, handles=4, cells=4), 4000))
    else:
        plans.append(("sampled", dict(steps=24, handles=4, cells=4), 150000))
        plans.append(("sampled5", dict(steps=40, handles=5, cells=5), 50000))
    for name, kw, sim in plans:
        pool_cfg(cfg, kw["steps"], "HistSpec", "INVARIANT Emit", handles=kw.get("handles", 3), cells=kw.get("cells", 3))
        out = os.path.join(C.WORK, "c03_pool_%s.out" % name)
        r = C.tlc("MC_StatePool.tla", cfg, "c03_pool_" + name, timeout=3000, out_path=out,
                  simulate=sim, depth=kw["steps"] + 1 if sim else None, seed_arg=C.seed() + 1 if sim else None)
        C.require_tlc_ok(r, "StatePool " + name)
        if sim is None:
            chk.add_tlc(r, "state_pool_" + name)
        summ = os.path.join(C.WORK, "c03_pool_%s.json" % name)
        C.vh(["replay-pool", out, summ], check=True, timeout=3000)
        d = json.load(open(summ))
        os.remove(out)
        if d["cases"] == 0 or d["with_refused_write"] == 0 or d["with_dropped_pool"] == 0:
            raise C.ToolError("StatePool replay %s is vacuous: %s" % (name, {k: d[k] for k in ("cases", "with_refused_write", "with_dropped_pool")}))
        chk.cov["traces_validated_against_impl"] += d["cases"]
        chk.part("state_pool_replay_" + name, call_sequences=d["cases"], calls=d["calls"], with_shared=d["with_shared"],
                 with_refused_write=d["with_refused_write"], with_dropped_pool=d["with_dropped_pool"],
                 failures=d["failures"], recycling_policy_differences=d["policy_differences"],
                 first_policy_differences=[x["note"] for x in d["first_policy_differences"][:2]], cmd=r["cmd"])
        if d["samples"]:
            chk.sample({"pool_call_sequence": d["samples"][0]["ops"][:4]})
        for f in d["first_failures"][:3]:
            kind = "panic" if f["mismatch"].startswith("panic") else "mismatch"
            chk.violation("pool:%s:%s" % (name, kind), "real StatePool left the model: %s" % f["mismatch"], f)


def run(tier):
    chk = C.Check("C03", "model_checking", tier)
    chk.cov["rule"] = ("real chains are run through the public API with hooks on; every hook event (direction, leapfrog, "
                       "U-turn query, merge, sub-tree rejection, return) and the API output of every draw must be explained "
                       "by NutsTreeTrace; a validated draw is non-trivial if its tree has depth >= 2; distinct by "
                       "(scenario, draw number)")
    chk.assumptions = [
        "harness-side predicates (declared): merge log-size arithmetic and acceptance probability recomputed in Python "
        "at 1e-12; energy_error == energy - initial_energy bit-exact; gradient identity by FNV hash of bit patterns",
        "position/logp/energy identity is by bit pattern (interned), not by numeric tolerance",
        "the U-turn criterion's numerics are covered on the exact lattice under C02, here its call pattern is checked",
        "state pool replay: buffer identity is the allocation serial of the point and, independently, its address; allocation / "
        "deallocation counts that differ from the model's LIFO recycling are reported as policy differences, not violations",
    ]
    C.build_harness()
    tree_mc(chk, tier)
    state_pool(chk, tier)
    n = 150 if tier == "quick" else 1500
    scs = scenarios.nuts_scenarios(C.seed() * 1000003 + 17, n)
    raw = record_runs(scs, "c03")
    runs = []
    draws_nontrivial = 0
    draws = 0
    api_problems = []
    for sc, run_ev in project.read_runs(raw):
        for e in run_ev:
            if e["ev"] in ("new_chain", "set_position") and (e.get("ok") is False or e.get("res") == "panic"):
                api_problems.append((sc, e))
            if e["ev"] == "draw_out" and e["res"] == "panic":
                api_problems.append((sc, e))
        pe = project.project_nuts(run_ev, sc)
        for e in pe:
            if e["e"] == "out" and e.get("res") == "ok":
                draws += 1
                if e["depth"] >= 2:
                    draws_nontrivial += 1
        runs.append((sc, pe))
    failures, st = C.validate_runs("NutsTreeTrace.tla", "NutsTreeTrace.cfg", runs, "c03")
    chk.cov["states"] += st["states"]
    chk.cov["transitions"] += st["generated"]
    chk.cov["traces_validated_against_impl"] += st["runs_validated"]
    chk.part("trace_validation", chains=len(runs), chains_validated=st["runs_validated"], events=st["events"],
             draws=draws, tlc_runs=st["tlc_runs"], wall_s=round(st["wall"], 1), cmd=st["cmd"])
    chk.cov["evaluations"] = draws
    chk.cov["distinct_nontrivial"] = draws_nontrivial
    for sc, pe in runs[:2]:
        chk.sample({"scenario": sc, "first_events": pe[:25]})
    for f in failures:
        ev = f["event"]
        what = f["invariant"] or "unexplained event"
        key = "trace:%s:%s" % (what, ev.get("e"))
        chk.violation(key, "real chain left NutsTree at event %s (%s); scenario=%s" %
                      (json.dumps(ev), what, json.dumps(f["meta"])), f)
    for sc, e in api_problems:
        chk.violation("panic:%s" % e["ev"], "panic in %s: %s scenario=%s" % (e["ev"], e.get("msg", e.get("panic")), json.dumps(sc)), {"scenario": sc, "event": e})
    os.remove(raw)
    return chk.finish()


def replay(path):
    d = json.load(open(path))
    print(json.dumps(d, indent=1)[:6000])
    return 0
