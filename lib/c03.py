"""C03 - every draw is a real trajectory state and its statistics describe it.
 1. TLC: NutsTree invariants (DoneOK, StructOK, StepsOK, MindepthOK) over all behaviours for a wide
    set of tree options (mindepth, extra doublings, check_turning, dim 0)
 2. code->spec: hook traces of real chains (3 NUTS presets x kinetic energies x options x densities x
    fault plans) validated line by line against NutsTreeTrace
"""
import json, os, shutil
import common as C
import project, scenarios


def record_runs(scs, name, threads=8):
    wd = C.workdir("rec_" + name)
    inp, out = os.path.join(wd, "sc.ndjson"), os.path.join(wd, "raw.ndjson")
    # the harness keeps the events of a batch in memory until it is written: record in batches
    batch = 150
    with open(out, "w") as fo:
        for b in range(0, len(scs), batch):
            part = os.path.join(wd, "part.ndjson")
            with open(inp, "w") as f:
                f.write("\n".join(json.dumps(s) for s in scs[b:b + batch]) + "\n")
            C.vh(["record-chains", inp, part], env={"VH_THREADS": str(threads)}, check=True, timeout=7200)
            with open(part) as fi:
                shutil.copyfileobj(fi, fo)
            os.remove(part)
    return out


def tree_mc(chk, tier):
    cfg = os.path.join(C.WORK, "c03_tree.cfg")
    with open(cfg, "w") as f:
        f.write("CONSTANTS\n  Weights = {1}\n  Configs <- ConfigsWide\n  AllowDiv = TRUE\n  AllowErr = TRUE\n  Emit = FALSE\n"
                "SPECIFICATION MCSpec\nINVARIANTS StructOK DoneOK StepsOK MindepthOK\nCHECK_DEADLOCK FALSE\n")
    r = C.tlc("MC_NutsTree.tla", cfg, "c03_tree", timeout=3000)
    C.require_tlc_ok(r, "NutsTree wide")
    chk.add_tlc(r, "tree_wide_mc")
    if r["violated"]:
        chk.violation("spec:tree", "NutsTree invariant %s violated in model checking" % r["violated"], r["out"][-3000:])


def run(tier):
    chk = C.Check("C03", "model_checking", tier)
    chk.cov["rule"] = ("real chains are run through the public API with hooks on; every hook event (direction, leapfrog, "
                       "U-turn query, merge, sub-tree rejection, return) and the API output of every draw must be explained "
                       "by NutsTreeTrace; a validated draw is non-trivial if its tree has depth >= 2; distinct by "
                       "(scenario, draw number)")
    chk.assumptions = [
        "harness-side predicates (declared): merge log-size arithmetic and acceptance probability recomputed in Python "
        "at 1e-12; energy_error == energy - initial_energy bit-exact; gradient identity by FNV hash of bit patterns",
        "position/logp/energy identity is by bit pattern (interned), not by numeric tolerance",
        "the U-turn criterion's numerics are covered on the exact lattice under C02, here its call pattern is checked",
    ]
    C.build_harness()
    tree_mc(chk, tier)
    n = 150 if tier == "quick" else 1500
    scs = scenarios.nuts_scenarios(C.seed() * 1000003 + 17, n)
    raw = record_runs(scs, "c03")
    runs = []
    draws_nontrivial = 0
    draws = 0
    api_problems = []
    for sc, run_ev in project.read_runs(raw):
        for e in run_ev:
            if e["ev"] in ("new_chain", "set_position") and (e.get("ok") is False or e.get("res") == "panic"):
                api_problems.append((sc, e))
            if e["ev"] == "draw_out" and e["res"] == "panic":
                api_problems.append((sc, e))
        pe = project.project_nuts(run_ev, sc)
        for e in pe:
            if e["e"] == "out" and e.get("res") == "ok":
                draws += 1
                if e["depth"] >= 2:
                    draws_nontrivial += 1
        runs.append((sc, pe))
    failures, st = C.validate_runs("NutsTreeTrace.tla", "NutsTreeTrace.cfg", runs, "c03")
    chk.cov["states"] += st["states"]
    chk.cov["transitions"] += st["generated"]
    chk.cov["traces_validated_against_impl"] += st["runs_validated"]
    chk.part("trace_validation", chains=len(runs), chains_validated=st["runs_validated"], events=st["events"],
             draws=draws, tlc_runs=st["tlc_runs"], wall_s=round(st["wall"], 1), cmd=st["cmd"])
    chk.cov["evaluations"] = draws
    chk.cov["distinct_nontrivial"] = draws_nontrivial
    for sc, pe in runs[:2]:
        chk.sample({"scenario": sc, "first_events": pe[:25]})
    for f in failures:
        ev = f["event"]
        what = f["invariant"] or "unexplained event"
        key = "trace:%s:%s" % (what, ev.get("e"))
        chk.violation(key, "real chain left NutsTree at event %s (%s); scenario=%s" %
                      (json.dumps(ev), what, json.dumps(f["meta"])), f)
    for sc, e in api_problems:
        chk.violation("panic:%s" % e["ev"], "panic in %s: %s scenario=%s" % (e["ev"], e.get("msg", e.get("panic")), json.dumps(sc)), {"scenario": sc, "event": e})
    os.remove(raw)
    return chk.finish()


def replay(path):
    d = json.load(open(path))
    print(json.dumps(d, indent=1)[:6000])
    return 0
