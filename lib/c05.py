"""C05 - density faults become divergences or errors, never panics or bad draws.
Fault enumeration: for every evaluation index k of set_position + D draws and every fault kind (plus sampled
pairs) a real chain is run with that fault injected; each API call's outcome is validated against the
FaultSemantics rules by TLC (FaultTrace)."""
import json, os, random
import common as C


def sweep_scenarios(seed, tier):
    rnd = random.Random(seed)
    out = []
    presets = ["diag_nuts", "lowrank_nuts", "flow_nuts"]
    for i, preset in enumerate(presets):
        for variant in range(1 if tier == "quick" else 6):
            st = {"num_tune": 10 if preset != "lowrank_nuts" else 10, "num_draws": 4 if tier == "quick" else 12,
                  "maxdepth": rnd.choice([3, 4]), "seed": rnd.randrange(1 << 30),
                  "trajectory_kind": "Euclidean" if variant != 1 else "ExactNormal"}
            if preset != "flow_nuts":
                st["adapt_options"] = {"early_mass_matrix_switch_freq": 3, "mass_matrix_switch_freq": 4,
                                       "mass_matrix_update_freq": 1}
            dens = [{"kind": "Normal", "mu": [0.5], "sd": [1.0, 2.0]}, {"kind": "Corr", "rho": 0.7},
                    {"kind": "StudentT", "nu": 4.0}][(i + variant) % 3]
            out.append({"preset": preset, "dim": 2, "density": dens, "settings": st, "seed": rnd.randrange(1 << 30),
                        "init": [0.3, -0.2],
                        "sweep": {"stride": 1 if tier == "thorough" else 2, "offset": rnd.randrange(2),
                                  "pairs": 40 if tier == "quick" else 3000}})
    return out


def key_of(line, sc):
    F = sorted(set((p, k) for p, k in line["faults"]))
    return "%s:%s:%s" % (line["e"], line["res"] + ("" if line["e"] == "setpos" else ("+div" if line.get("div") else "+nodiv")
                                                      + ("+finite" if line.get("fin") else "+nonfinite")
                                                      + ("".join("+bad:" + b for b in line.get("badstats", [])))),
                         ",".join("%s/%s" % f for f in F) or "nofault")


def run(tier):
    chk = C.Check("C05", "fault_enumeration", tier)
    chk.cov["rule"] = ("for each of 3 NUTS presets: every evaluation index k (stride 2 in quick, 1 in thorough) of set_position + "
                       "draws (crossing the first transformation change and the re-run of the step-size search) x 8 fault kinds, "
                       "plus sampled pairs of faults; one chain run per plan under catch_unwind; every API call of every run is "
                       "one line validated against FaultSemantics; non-trivial = run in which the fault actually fired; "
                       "distinct by (preset, fault plan)")
    chk.assumptions = ["phase of an evaluation (init / search step / trajectory / re-search init / re-search step) is derived "
                       "from the hook event stream of the same run", "faults are single-shot by evaluation index",
                       "a non-fatal fault at initialisation or at the start evaluation of the re-run search may end the call with Ok or Err"]
    C.build_harness()
    r = C.tlc("MC_FaultSemantics.tla", "MC_FaultSemantics.cfg", "c05_rules", timeout=600)
    C.require_tlc_ok(r, "FaultSemantics rules")
    chk.add_tlc(r, "rules_mc")
    if r["violated"]:
        chk.violation("spec:rules", "FaultSemantics rule set inconsistent: %s" % r["violated"], r["out"][-2000:])
    wd = C.workdir("c05")
    scs = sweep_scenarios(C.seed() * 6700417 + 1, tier)
    inp, outp = os.path.join(wd, "sc.ndjson"), os.path.join(wd, "out.ndjson")
    with open(inp, "w") as f:
        f.write("\n".join(json.dumps(s) for s in scs) + "\n")
    C.vh(["fault-sweep", inp, outp], check=True, timeout=7200, env={"VH_THREADS": "12"})
    runs = []
    fired = 0
    panics = []
    classes = {}
    for line in open(outp):
        d = json.loads(line)
        sc, res = d["scenario"], d["result"]
        if res is None:
            continue
        if res["new_chain"] and res["new_chain"].get("ok") is False:
            panics.append((sc, "new_chain"))
            continue
        ev = [{"e": "reset"}]
        any_f = False
        for c in res["calls"]:
            if c["res"] == "panic":
                panics.append((sc, c["e"]))
            # R5: a valid draw has finite position, log-density *and* usable statistics (step size > 0, finite acceptance
            # statistics and energy, at least one integration step)
            if c.get("badstats"):
                c["fin"] = False
            ev.append(c)
            if c["faults"]:
                any_f = True
                k = key_of(c, sc)
                classes[k] = classes.get(k, 0) + 1
        fired += 1 if any_f else 0
        runs.append((sc, ev))
    failures, st = C.validate_runs("FaultTrace.tla", "FaultTrace.cfg", runs, "c05", max_rejections=60)
    chk.cov["states"] += st["states"]
    chk.cov["transitions"] += st["generated"]
    chk.cov["traces_validated_against_impl"] = st["runs_validated"]
    chk.cov["evaluations"] = len(runs)
    chk.cov["distinct_nontrivial"] = fired
    chk.part("fault_sweep", runs=len(runs), fault_fired=fired, tlc_runs=st["tlc_runs"], outcome_classes=classes)
    for sc, ev in runs[:3]:
        chk.sample({"scenario": sc, "calls": ev[:8]})
    seen = set()
    for f in failures:
        ev = f["event"]
        key = "call:" + key_of(ev, f["meta"]) if ev.get("e") in ("setpos", "draw") else "unexplained:%s" % ev.get("e")
        if key in seen:
            continue
        seen.add(key)
        chk.violation(key, "API call outcome not allowed by FaultSemantics: %s; scenario=%s" %
                      (json.dumps(ev), json.dumps(f["meta"])[:500]), f)
    for sc, where in panics[:20]:
        chk.violation("panic:%s:%s" % (where, sc["faults"][0][1] if sc["faults"] else "?"),
                      "panic in %s with fault plan %s" % (where, json.dumps(sc["faults"])), sc)
    return chk.finish()


def replay(path):
    print(open(path).read()[:6000])
    return 0
