"""C15 - flushed Zarr traces are complete at every flush point."""
import json, os, random
import common as C
import c14

ZB = ["zarr", "zarr_fs", "zarr_async", "zarr_async_slow"]


def zb_cfg(path, cs, asyn, join, mw, ms, mf, emit, inv="ZInv"):
    with open(path, "w") as f:
        f.write("CONSTANTS\n  ChunkSize = %d\n  Async = %s\n  JoinOnFlush = %s\n  MaxWarm = %d\n  MaxSample = %d\n  MaxFlush = %d\n"
                "  Emit = %s\nSPECIFICATION MCSpec\nINVARIANTS %s%s\nCHECK_DEADLOCK FALSE\n"
                % (cs, "TRUE" if asyn else "FALSE", "TRUE" if join else "FALSE", mw, ms, mf, "TRUE" if emit else "FALSE", inv,
                   " EmitReplay" if emit else ""))


def run(tier):
    chk = C.Check("C15", "model_checking", tier)
    chk.cov["rule"] = ("TLC: ZarrBuffer (chunk buffer, warm-up reset, flush as partial-chunk write, full-chunk overwrite, async "
                       "in-flight writes landing in any order, finalize) for chunk sizes 1..4 x up to 4+4 draws x up to 2 flushes: "
                       "everything recorded before the last flush is in the reader's view and stays there, finalisation completes, "
                       "no garbage; the same behaviours are executed on the real Zarr backends (memory store, filesystem store, "
                       "async, async with throttled writes) with a FRESH reader opened after every flush and after every later "
                       "record (= every crash point), validated by ReaderOK of Storage.tla; non-trivial: behaviour with a flush "
                       "followed by further records; distinct by (backend, chunk size, behaviour)")
    chk.assumptions = ["a crash point is a reader opening the store between two operations; torn writes below the key/value granularity "
                       "are not modelled", "the async backend's write timing is explored by throttling puts (15 ms) - sampled, not exhaustive"]
    C.build_harness()
    rnd = random.Random(C.seed() * 1299709 + 5)
    hists = {}
    for cs in ([1, 2, 3] if tier == "quick" else [1, 2, 3, 4]):
        for asyn in (False, True):
            cfg = os.path.join(C.WORK, "c15_zb.cfg")
            zb_cfg(cfg, cs, asyn, True, 4, 4, 2, not asyn)
            r = C.tlc("MC_ZarrBuffer.tla", cfg, "c15_zb", timeout=1800)
            C.require_tlc_ok(r, "ZarrBuffer cs=%d async=%s" % (cs, asyn))
            chk.add_tlc(r, "zarrbuffer_cs%d_%s" % (cs, "async" if asyn else "sync"))
            if r["violated"]:
                chk.violation("spec:zarrbuffer:cs%d" % cs, "ZarrBuffer invariant %s violated" % r["violated"], r["out"][-2000:])
            if not asyn:
                hs = set()
                for line in C.replay_lines(r["out"]):
                    s = json.loads(line[line.index('"REPLAY", ') + 10:].rstrip().rstrip(">"))
                    hs.add("".join(json.loads(s)["hist"]))
                hists[cs] = sorted(hs)
    # teeth: a flush that does not join the pending writes must violate FlushedIntact in the model
    cfg = os.path.join(C.WORK, "c15_teeth.cfg")
    zb_cfg(cfg, 2, True, False, 3, 2, 1, False)
    rt = C.tlc("MC_ZarrBuffer.tla", cfg, "c15_teeth", timeout=600)
    if rt["violated"] != "ZInv":
        raise C.ToolError("teeth: ZarrBuffer without join-on-flush should violate ZInv, got %s" % rt["violated"])
    chk.part("teeth_no_join", result="violates ZInv as it must")
    # replay on the real backends
    scs = []
    per = 40 if tier == "quick" else 100000
    for b in ZB:
        for cs, hs in sorted(hists.items()):
            hs = sorted(hs)     # TLC prints in no particular order: the seed alone decides what is sampled
            pick = hs if len(hs) <= per else rnd.sample(hs, per)
            if b == "zarr_async_slow":
                pick = [h for h in pick if "f" in h][: (12 if tier == "quick" else 300)]
            for h in pick:
                ops = []
                for ch in h:
                    if ch == "f":
                        ops.append({"op": "flush"})
                    else:
                        ops.append({"op": "record", "tuning": ch == "w", "div": rnd.random() < 0.4, "upd": rnd.random() < 0.4})
                chains = rnd.choice([1, 2])
                scs.append({"backend": b, "preset": "diag_nuts", "dim": 2, "num_tune": h.count("w") + rnd.choice([0, 1]),
                            "num_draws": h.count("s") + rnd.choice([0, 2]), "chains": chains,
                            # every fourth run discards the warm-up (the phase switch must still happen)
                            "store_warmup": len(scs) % 4 != 3, "chunk": cs,
                            "full_events": rnd.random() < 0.5, "optvecs": True, "specials": True,
                            # the slow-queue variant looks only right after flush() returns (nothing may give the
                            # pending writes time to land before the flush under test)
                            "observe_reader": b != "zarr_async_slow",
                            "draw_vars": c14.VARSETS[rnd.randrange(2)], "ops": c14.mirror(ops, chains),
                            "workdir": os.path.join(C.WORK, "storage"), "put_delay_ms": 25,
                            "settings": {"adapt_options": {"mass_matrix_options": {"store_mass_matrix": True}}}})
    runs, failures = c14.run_backends(chk, scs, "c15")
    chk.cov["distinct_nontrivial"] = sum(1 for m, pe in runs if any(
        e["e"] == "flush" and any(x["e"] == "record" for x in pe[i + 1:]) for i, e in enumerate(pe)))
    for m, pe in runs[:2]:
        chk.sample({"scenario": {k: m[k] for k in ("backend", "chunk", "chains", "num_tune", "num_draws")},
                    "ops": [o["op"] + ("" if o["op"] != "record" else ("_w" if o["tuning"] else "_s")) for o in m["ops"]]})
    seen = set()
    for f in failures:
        key = c14.explain(f)
        if key in seen:
            continue
        seen.add(key)
        f["full_run"] = next(pe for m, pe in runs if m is f["meta"])
        ev = dict(f["event"])
        if "entries" in ev:
            bad = c14.diagnose(f, "diag15")
            ev["entries"] = [{"var": x["v"]["name"], "ev": x["v"]["ev"], "layout": x["layout"], "phase": x["phase"],
                              "chain": x["chain"], "rows": x["rows"]} for x in bad][:4]
        meta = {k: v for k, v in f["meta"].items() if k != "vars"}
        chk.violation(key, "a fresh reader of the Zarr store does not see what was flushed (%s): %s; scenario=%s" %
                      (key, json.dumps(ev)[:900], json.dumps(meta)[:700]), f["meta"])
    return chk.finish()


def replay(path):
    print(open(path).read()[:6000])
    return 0
