"""Projection of raw hook/harness event logs (vh record-chains) into the discrete event
vocabulary of the trace specifications.  Floats never reach TLC: they are compared here
(harness-side predicates, named in the evidence) or passed as bit-pattern strings."""
import json, math, struct


def f_from_bits(s):
    return struct.unpack(">d", bytes.fromhex(s))[0]


def bits_from_f(x):
    return struct.pack(">d", x).hex()


def logaddexp(a, b):
    if a == b:
        return a + math.log(2.0)
    if a > b:
        return a + math.log1p(math.exp(-(a - b)))
    return b + math.log1p(math.exp(a - b))


def close(a, b, rel=1e-12, abs_=1e-300):
    if math.isnan(a) or math.isnan(b):
        return False
    if a == b:
        return True
    return abs(a - b) <= rel * max(abs(a), abs(b)) + abs_


def stat(stats, name):
    for n, v in stats:
        if n == name:
            return v
    return None


def sval(stats, name, default=None):
    v = stat(stats, name)
    if v is None:
        return default
    return v["v"]


def read_runs(path):
    """Yield (scenario, [events]) per run of a raw log."""
    run, sc = None, None
    with open(path) as f:
        for line in f:
            ev = json.loads(line)
            if ev["ev"] == "reset":
                if run is not None:
                    yield sc, run
                run, sc = [], ev["scenario"]
            else:
                run.append(ev)
    if run is not None:
        yield sc, run


def project_nuts(run):
    """NutsTreeTrace vocabulary for one NUTS run. Returns list of dicts."""
    out = [{"e": "reset"}]
    in_draw = False
    e0 = None
    for ev in run:
        k = ev["ev"]
        if k == "traj_init":
            in_draw = True
            e0 = f_from_bits(ev["e0"])
            out.append({"e": "init", "mind": ev["mind"], "maxd": ev["maxd"], "cfgMaxd": ev["cfg_maxd"],
                        "extra": ev["extra"], "check": ev["check"], "dim": ev["dim"], "ph": ev["ph"],
                        "e0": ev["e0"], "logp": ev["logp"]})
        elif k == "dir" and in_draw:
            out.append({"e": "dir", "d": 1 if ev["d"] == "F" else -1, "check": ev["check"]})
        elif k == "leap" and in_draw:
            r = {"e": "leap", "start": ev["start"], "d": ev["sign"], "res": ev["res"]}
            if ev["res"] == "ok":
                r.update({"end": ev["end"], "ph": ev["ph"], "logp": ev["logp"], "energy": ev["energy"],
                          "gh": ev.get("gh", "?")})
            out.append(r)
        elif k == "turn" and in_draw:
            out.append({"e": "turn", "k": ev["k"], "i": ev["i"], "j": ev["j"], "b": ev["b"], "hb": "na"})
        elif k == "merge" and in_draw:
            ls_s, ls_o, ls_n = (f_from_bits(ev[x]) for x in ("ls_self", "ls_other", "ls_new"))
            base = ls_s if ev["main"] else ls_n
            ok = close(ls_n, logaddexp(ls_s, ls_o))
            ok = ok and (ev["ge"] == (ls_o >= base))
            p = ev["p"]
            try:
                pe = math.exp(ls_o - base)
            except OverflowError:
                pe = float("inf")
            ok = ok and (p is None and not math.isfinite(pe) or (p is not None and close(p, pe)))
            out.append({"e": "merge", "main": ev["main"], "acc": ev["acc"], "ge": ev["ge"], "depth": ev["depth"],
                        "lo": ev["lo"], "hi": ev["hi"], "draw": ev["draw"], "selfdraw": ev["self_draw"],
                        "otherdraw": ev["other_draw"], "pok": bool(ok)})
        elif k == "sub_rej" and in_draw:
            out.append({"e": "sub_rej", "why": ev["why"], "depth": ev["depth"]})
        elif k == "extra" and in_draw:
            out.append({"e": "extra", "depth": ev["depth"]})
        elif k == "ret":
            in_draw = False
            out.append({"e": "ret", "why": ev["why"], "idx": ev["idx"], "depth": ev["depth"], "maxd": ev["maxd"],
                        "div": ev["div"], "lo": ev["lo"], "hi": ev["hi"], "ph": ev["ph"], "logp": ev["logp"],
                        "energy": ev["energy"], "finite": ev["finite"]})
        elif k == "ret_err":
            in_draw = False
            out.append({"e": "ret_err"})
        elif k == "draw_out":
            if ev["res"] != "ok":
                out.append({"e": "out", "res": ev["res"]})
                continue
            st = ev["stats"]
            energy = f_from_bits(sval(st, "energy"))
            eerr = f_from_bits(sval(st, "energy_error"))
            eerr_ok = (e0 is not None) and (bits_from_f(energy - e0) == bits_from_f(eerr)
                                            or (math.isnan(eerr) and math.isnan(energy - e0)))
            g = stat(st, "gradient")
            gh = "" if g is None else fnv_bits(g["v"])
            out.append({"e": "out", "res": "ok", "ph": ev["ph"], "depth": sval(st, "depth"),
                        "idx": sval(st, "index_in_trajectory"), "maxd": sval(st, "maxdepth_reached"),
                        "div": sval(st, "diverging"), "nsteps": sval(st, "n_steps"),
                        "pnsteps": ev["progress"]["num_steps"],
                        "logp": sval(st, "logp"), "energy": sval(st, "energy"), "eerrok": bool(eerr_ok),
                        "gh": gh, "finite": ev["finite"]})
    return out


def fnv_bits(bitstrs):
    """Same FNV-1a as verif::hash_f64s, from bit-pattern strings."""
    h = 0xcbf29ce484222325
    for s in bitstrs:
        for b in reversed(bytes.fromhex(s)):   # little-endian byte order
            h ^= b
            h = (h * 0x100000001b3) & 0xFFFFFFFFFFFFFFFF
    return "%016x" % h


def project_adapt(sc, run):
    """AdaptScheduleTrace vocabulary: one line per draw. Returns (events, problems)."""
    from fractions import Fraction
    lines = []
    cur = {"ret": None, "adapt": None, "ss": [], "ss_set": []}
    draws = []
    for ev in run:
        k = ev["ev"]
        if k == "ret":
            cur["ret"] = ev
        elif k == "adapt":
            cur["adapt"] = ev
        elif k == "ss_advance":
            cur["ss"].append(ev)
        elif k == "ss_set":
            cur["ss_set"].append(ev)
        elif k == "draw_out":
            cur["out"] = ev
            draws.append(cur)
            cur = {"ret": None, "adapt": None, "ss": [], "ss_set": []}
    draws = [d for d in draws if d["out"]["res"] == "ok" and d["adapt"] is not None]
    if not draws:
        return [], []
    a0 = draws[0]["adapt"]
    kind = a0["kind"]
    num_tune = a0["num_tune"]
    st = sc.get("settings", {})
    ao = st.get("adapt_options", {})
    sss = ao.get("step_size_settings", {})
    method = sss.get("adapt_options", {}).get("method", "DualAverage")
    if "mclmc" in sc["preset"]:
        method = "Fixed"
    max_step = sss.get("adapt_options", {}).get("dual_average", {}).get("max_step_size", math.pi)
    if kind == "global":
        g = Fraction(a0["growth"]).limit_denominator(1 << 20)
        if float(g) != a0["growth"]:
            g = Fraction(a0["growth"])
        reset = {"e": "reset", "kind": kind, "numTune": num_tune, "earlyEnd": a0["early_end"],
                 "finalWindow": a0["final_window"], "earlyFreq": a0["early_freq"], "mainFreq": a0["main_freq"],
                 "updFreq": a0["upd_freq"], "gn": g.numerator, "gd": g.denominator}
    else:
        reset = {"e": "reset", "kind": kind, "numTune": num_tune, "earlyEnd": 0, "finalWindow": a0["final_window"],
                 "earlyFreq": 1, "mainFreq": 1, "updFreq": a0["upd_freq"], "gn": 1, "gd": 1}
    lines.append(reset)
    # final averaged step size: the one in force when warm-up ends
    bar_final = None
    for d in draws:
        if d["adapt"]["draw"] == max(num_tune - 1, 0):
            bar_final = sval(d["out"]["stats"], "step_size_bar")
    for d in draws:
        a, o = d["adapt"], d["out"]
        stt = o["stats"]
        jit = None
        base = None
        if d["ss_set"]:
            jit = d["ss_set"][-1]["jitter"]
            base = f_from_bits(d["ss_set"][-1]["base"])
        step = f_from_bits(a["step"])
        bar_bits = sval(stt, "step_size_bar")
        bar = f_from_bits(bar_bits) if bar_bits else float("nan")
        j = jit if jit is not None else 0.0
        inband = True
        barsame = True
        if bar_final is not None:
            bf = f_from_bits(bar_final)
            inband = (bf * (1 - j) * (1 - 1e-12) <= step <= bf * (1 + j) * (1 + 1e-12))
            barsame = (bar_bits == bar_final)
        stepok = math.isfinite(step) and step > 0
        # the bound is stated for dual-averaging updates; a (re-)run of the doubling search installs its own result
        if method == "DualAverage" and not a.get("research", False):
            stepok = stepok and step <= max_step * (1 + j) * (1 + 1e-12)
        if d["ret"] is not None:
            idx, div = d["ret"]["idx"], d["ret"]["div"]
            good = "t" if ((abs(idx) > 4) if div else (idx != 0)) else "f"
        else:
            good = "na"
        fedcalls = ",".join(x["which"] for x in d["ss"])
        fedvalok = True
        for x in d["ss"]:
            ref = sval(stt, "mean_tree_accept" if x["which"] == "early" else "mean_tree_accept_sym")
            if ref != x["val"]:
                fedvalok = False
        line = {"e": "adapt", "kind": kind, "draw": a["draw"], "branch": a["branch"], "fed": a["fed"],
                "tid": a["tid"], "tuning": a["tuning"], "ptuning": o["progress"]["tuning"],
                "stuning": sval(stt, "tuning"), "fedcalls": fedcalls, "fedvalok": fedvalok,
                "barsame": bool(barsame), "inband": bool(inband), "stepok": bool(stepok), "good": good,
                "diag": "lowrank" not in sc["preset"],
                "stepf": step if math.isfinite(step) else None, "barf": bar if math.isfinite(bar) else None}
        if kind == "global":
            line.update({"switched": a["switched"], "changed": a["changed"], "research": a["research"],
                         "fg": a["fg"], "bg": a["bg"], "win": a["win"], "lastUpdate": a["last_update"],
                         "hasInitial": a["has_initial"]})
        lines.append(line)
    return lines, []


def is_prefix(a, b):
    return len(a) <= len(b) and list(b[:len(a)]) == list(a)


def project_sampler(sc, run):
    """SamplerTrace vocabulary for one sampler run."""
    ref = next(e for e in run if e["ev"] == "reference")
    new = next((e for e in run if e["ev"] == "u_new"), None)
    if new is None:
        return []
    full_rec = ref["full_rec"]
    fp = ref["full_pos"]
    distinct = all(fp[i] != fp[j] or not fp[i] for i in range(len(fp)) for j in range(i + 1, len(fp)))
    out = [{"ev": "reset", "chains": new["chains"], "cores": new["cores"], "draws": new["draws"],
            "fullpos": fp, "distinct": distinct}]
    for e in run:
        k = e["ev"]
        if k in ("reference", "u_new"):
            continue
        e = {a: b for a, b in e.items() if a not in ("cat", "seq")}
        if k == "u_ret" and e.get("cmd") == "inspect" and e.get("ok"):
            tr = e.pop("trace")
            lens = [len(t) if t is not None else 0 for t in tr]
            while len(lens) < new["chains"]:
                lens.append(0)
            e["lens"] = lens
            e["prefixok"] = all(is_prefix(t or [], full_rec[i]) for i, t in enumerate(tr))
        if k == "ch_result":
            e.pop("msg", None)
        if k == "u_ret":
            e.pop("msg", None)
        if k == "final":
            res = e["result"]
            tr = res.get("trace")
            oc = res["outcome"]["res"]
            lens = [0] * new["chains"]
            ok = True
            if tr is not None:
                for i, t in enumerate(tr):
                    if t is not None:
                        lens[i] = len(t)
                        ok = ok and is_prefix(t, full_rec[i])
            e = {"ev": "final", "outcome": oc, "prefixok": ok, "lens": lens, "hastrace": tr is not None}
        out.append(e)
    return out


def project_schema(sc, run):
    """StatsSchemaTrace vocabulary: reset with the declared schema, one line per draw."""
    sch = next((e for e in run if e["ev"] == "schema"), None)
    if sch is None:
        return []
    sizes = sch["dim_sizes"]
    names = sch["names"]
    types = [t.lower() for _, t in sch["types"]]
    lens = []
    for _, ds in sch["dims"]:
        n = 1
        for d in ds:
            n *= sizes.get(d, -1)
        lens.append(n)
    ev = [d or "" for _, d in sch["event_dims"]]
    out = [{"e": "reset", "names": names, "types": types, "lens": lens, "ev": ev}]
    last_tid = -1
    tid = None
    for e in run:
        if e["ev"] == "adapt":
            tid = e["tid"]
        elif e["ev"] == "draw_out" and e["res"] == "ok":
            st = []
            for name, v in e["stats"]:
                if v is None:
                    st.append({"name": name, "present": False, "t": "", "n": 0})
                else:
                    st.append({"name": name, "present": True, "t": v["t"], "n": v["n"]})
            diverging = sval(e["stats"], "diverging")
            changed = (tid is not None and tid != last_tid and "flow" not in sc["preset"])
            if tid is not None:
                last_tid = tid
            out.append({"e": "draw", "st": st, "diverging": bool(diverging), "changed": bool(changed),
                        "counter": sval(e["stats"], "draw"), "chain": sval(e["stats"], "chain")})
    return out


def esh_closed_form(g, p0, step):
    """Independent evaluation of the ESH momentum update: returns (p1, dke)."""
    n = len(g)
    gn = math.sqrt(sum(x * x for x in g))
    gh = [x / gn for x in g]
    a = sum(p * x for p, x in zip(p0, gh))
    d = step * gn / (n - 1)
    if abs(d) < 300:
        ch, sh = math.cosh(d), math.sinh(d)
        den = ch + a * sh
        p1 = [(p + x * (sh + a * (ch - 1.0))) / den for p, x in zip(p0, gh)]
        dke = (n - 1) * math.log(den)
    else:
        # large |d|: divide through by e^|d|/2
        s = 1.0 if d > 0 else -1.0
        den_s = (1 + s * a)            # (cosh d + a sinh d) * 2 e^-|d|  (up to e^-2|d|)
        p1 = [(x * (s + a)) / den_s for x in gh]
        dke = (n - 1) * (abs(d) - math.log(2.0) + math.log(den_s))
    nrm = math.sqrt(sum(x * x for x in p1))
    p1 = [x / nrm for x in p1]
    return p1, dke


def project_mclmc(sc, run):
    st = sc["settings"]
    tk = st.get("trajectory_kind", "EuclideanEarlyThenMicrocanonical")
    frac = st.get("trajectory_switch_fraction", 0.3)
    switch_draw = int(frac * float(st["num_tune"]))
    dynamic = st.get("dynamic_step_size", True)
    out = [{"e": "reset", "tk": tk, "switchDraw": switch_draw}]
    eshok = True
    nesh = 0
    for e in run:
        k = e["ev"]
        if k == "esh":
            g = [f_from_bits(x) for x in e["g"]]
            p0 = [f_from_bits(x) for x in e["p0"]]
            p1 = [f_from_bits(x) for x in e["p1"]]
            step = f_from_bits(e["step"])
            dke = f_from_bits(e["dke"])
            ke0 = f_from_bits(e["ke0"])
            nesh += 1
            if all(math.isfinite(x) for x in g + p0 + [step]) and any(x != 0 for x in g):
                try:
                    q1, d1 = esh_closed_form(g, p0, step)
                    ok = all(abs(a - b) <= 1e-9 for a, b in zip(p1, q1))
                    ok = ok and abs(dke - d1) <= 1e-9 * (1 + abs(d1) + abs(ke0))
                    ok = ok and abs(sum(x * x for x in p1) - 1.0) <= 1e-9
                except (OverflowError, ValueError, ZeroDivisionError):
                    ok = True   # outside the range where the closed form can be evaluated independently
                eshok = eshok and ok
        elif k == "mswitch":
            out.append({"e": "mswitch", "draw": e["draw"]})
        elif k == "mstart":
            eps = f_from_bits(e["eps"])
            L = e["length"]
            nb = 1
            if L is not None:
                try:
                    x = e["freq"] * L / eps
                    nb = int(min(max(float(round_half_away(x)), 1.0), 1e6))
                except (OverflowError, ValueError, ZeroDivisionError):
                    nb = -1
            vn = f_from_bits(e["vnorm2"])
            out.append({"e": "mstart", "numBase": e["num_base"], "maxh": e["maxh"], "dynamic": bool(dynamic),
                        "nbok": nb == e["num_base"], "kind": e["kind"], "resample": e["resample"],
                        "unit": abs(vn - 1.0) <= 1e-9, "ph": e["ph"]})
            eshok = True
        elif k == "mstep":
            fexp = int(round(-math.log2(e["factor"])))
            line = {"e": "mstep", "res": e["res"], "fexp": fexp, "remaining": e["remaining"], "depth": e["depth"],
                    "steps": e["steps"], "eshok": eshok, "unit": True}
            if e["res"] == "ok":
                vn = f_from_bits(e["vnorm2"])
                # the norm is only constrained for the microcanonical kind; the start event carries the kind
                micro = next((x for x in reversed(out) if x["e"] == "mstart"), {}).get("kind") == "Microcanonical"
                line["unit"] = (abs(vn - 1.0) <= 1e-9) if micro else True
            out.append(line)
            eshok = True
        elif k == "mend":
            micro = next((x for x in reversed(out) if x["e"] == "mstart"), {}).get("kind") == "Microcanonical"
            vn = f_from_bits(e["vnorm2"])
            out.append({"e": "mend", "div": e["div"], "steps": e["steps"], "ph": e["ph"],
                        "unit": (abs(vn - 1.0) <= 1e-9) if micro else True})
        elif k == "draw_out" and e["res"] == "ok":
            out.append({"e": "out", "numsteps": e["progress"]["num_steps"], "snumsteps": sval(e["stats"], "num_steps"),
                        "diverging": e["progress"]["diverging"], "ph": e["ph"]})
    return out, nesh


def round_half_away(x):
    return math.floor(x + 0.5) if x >= 0 else -math.floor(-x + 0.5)
