"""Projection of raw hook/harness event logs (vh record-chains) into the discrete event
vocabulary of the trace specifications.  Floats never reach TLC: they are compared here
(harness-side predicates, named in the evidence) or passed as bit-pattern strings."""
import json, math, struct


def f_from_bits(s):
    return struct.unpack(">d", bytes.fromhex(s))[0]


def bits_from_f(x):
    return struct.pack(">d", x).hex()


def logaddexp(a, b):
    if a == b:
        return a + math.log(2.0)
    if a > b:
        return a + math.log1p(math.exp(-(a - b)))
    return b + math.log1p(math.exp(a - b))


def close(a, b, rel=1e-12, abs_=1e-300):
    if math.isnan(a) or math.isnan(b):
        return False
    if a == b:
        return True
    return abs(a - b) <= rel * max(abs(a), abs(b)) + abs_


def stat(stats, name):
    for n, v in stats:
        if n == name:
            return v
    return None


def sval(stats, name, default=None):
    v = stat(stats, name)
    if v is None:
        return default
    return v["v"]


def read_runs(path):
    """Yield (scenario, [events]) per run of a raw log."""
    run, sc = None, None
    with open(path) as f:
        for line in f:
            ev = json.loads(line)
            if ev["ev"] == "reset":
                if run is not None:
                    yield sc, run
                run, sc = [], ev["scenario"]
            else:
                run.append(ev)
    if run is not None:
        yield sc, run


def project_nuts(run, sc=None):
    """NutsTreeTrace vocabulary for one NUTS run. Returns list of dicts."""
    out = [{"e": "reset"}]
    in_draw = False
    search_err = False
    last_mom = None
    e0 = None
    energies = {}
    for ev in run:
        k = ev["ev"]
        if k == "momentum":
            last_mom = ev
        elif k == "traj_init":
            in_draw = True
            e0 = f_from_bits(ev["e0"])
            energies = {0: e0}      # trajectory index -> energy of the state the integrator reached there
            # the energy every weight and energy error of this trajectory is measured against is the energy of the start
            # point *with the momentum just drawn* (bit for bit)
            e0ok = True
            if last_mom is not None and "e" in last_mom:
                e0ok = (last_mom["e"] == last_mom["e0"] == ev["e0"]) or (f_from_bits(ev["e0"]) != f_from_bits(ev["e0"]))
                # ... and with the log-determinant of the transformation that is active now (not the one the point
                # was normalised with before an update)
                if last_mom.get("logdet_now") and last_mom.get("logdet"):
                    ld, ldn = f_from_bits(last_mom["logdet"]), f_from_bits(last_mom["logdet_now"])
                    if ld == ld and ldn == ldn and last_mom["logdet"] != last_mom["logdet_now"]:
                        e0ok = False
            out.append({"e": "init", "mind": ev["mind"], "maxd": ev["maxd"], "cfgMaxd": ev["cfg_maxd"],
                        "extra": ev["extra"], "check": ev["check"], "dim": ev["dim"], "ph": ev["ph"],
                        "e0": ev["e0"], "logp": ev["logp"], "e0ok": bool(e0ok)})
        elif k == "dir" and in_draw:
            out.append({"e": "dir", "d": 1 if ev["d"] == "F" else -1, "check": ev["check"]})
        elif k == "leap" and in_draw:
            r = {"e": "leap", "start": ev["start"], "d": ev["sign"], "res": ev["res"], "eeok": True}
            # a leapfrog is a divergence exactly when its energy error exceeds the *configured* max_energy_error
            # (or is not finite)
            maxe = (sc or {}).get("settings", {}).get("max_energy_error")
            if maxe is not None and ev.get("eerr"):
                ee = f_from_bits(ev["eerr"])
                # the error is measured against the energy the trajectory started with (not the previous point's):
                # recomputed from the end point's energy and the trajectory's reference energy when both were recorded
                if ev.get("energy") and e0 is not None and ev.get("why", "energy") == "energy":
                    ee_ref = f_from_bits(ev["energy"]) - e0
                    if ee_ref == ee_ref and e0 == e0 and not (ee_ref == ee or (ee != ee)):
                        r["eeok"] = False
                    if ev.get("e0") and f_from_bits(ev["e0"]) == f_from_bits(ev["e0"]) and f_from_bits(ev["e0"]) != e0:
                        r["eeok"] = False
                too_big = (ee > maxe) or not math.isfinite(ee)
                if ev["res"] == "ok":
                    r["eeok"] = r["eeok"] and not too_big
                elif ev["res"] == "div" and ev.get("why") == "energy":
                    r["eeok"] = r["eeok"] and too_big
            if ev["res"] == "ok":
                r.update({"end": ev["end"], "ph": ev["ph"], "logp": ev["logp"], "energy": ev["energy"],
                          "gh": ev.get("gh", "?")})
                energies[ev["end"]] = f_from_bits(ev["energy"])
            out.append(r)
        elif k == "turn" and in_draw:
            out.append({"e": "turn", "k": ev["k"], "i": ev["i"], "j": ev["j"], "b": ev["b"], "hb": "na"})
        elif k == "merge" and in_draw:
            ls_s, ls_o, ls_n = (f_from_bits(ev[x]) for x in ("ls_self", "ls_other", "ls_new"))
            base = ls_s if ev["main"] else ls_n
            ok = close(ls_n, logaddexp(ls_s, ls_o))
            ok = ok and (ev["ge"] == (ls_o >= base))
            p = ev["p"]
            try:
                pe = math.exp(ls_o - base)
            except OverflowError:
                pe = float("inf")
            ok = ok and (p is None and not math.isfinite(pe) or (p is not None and close(p, pe)))
            # the weight of the merged tree is the sum of exp(-energy error) over the states it spans, with the energies
            # the integrator reported for them (ties the multinomial weights to the real trajectory)
            if e0 is not None and math.isfinite(e0) and all(i in energies for i in range(ev["lo"], ev["hi"] + 1)):
                ds = [e0 - energies[i] for i in range(ev["lo"], ev["hi"] + 1)]
                if all(math.isfinite(x) for x in ds) and math.isfinite(ls_n):
                    m = max(ds)
                    want = m + math.log(sum(math.exp(x - m) for x in ds))
                    ok = ok and close(ls_n, want, rel=1e-9, abs_=1e-9)
            out.append({"e": "merge", "main": ev["main"], "acc": ev["acc"], "ge": ev["ge"], "depth": ev["depth"],
                        "lo": ev["lo"], "hi": ev["hi"], "draw": ev["draw"], "selfdraw": ev["self_draw"],
                        "otherdraw": ev["other_draw"], "pok": bool(ok)})
        elif k == "sub_rej" and in_draw:
            out.append({"e": "sub_rej", "why": ev["why"], "depth": ev["depth"]})
        elif k == "extra" and in_draw:
            out.append({"e": "extra", "depth": ev["depth"]})
        elif k == "search_try" and not in_draw:
            if ev.get("res") == "err":
                search_err = True      # unrecoverable error in the re-run of the step-size search (after the tree returned)
        elif k == "ret":
            in_draw = False
            search_err = False
            out.append({"e": "ret", "why": ev["why"], "idx": ev["idx"], "depth": ev["depth"], "maxd": ev["maxd"],
                        "div": ev["div"], "lo": ev["lo"], "hi": ev["hi"], "ph": ev["ph"], "logp": ev["logp"],
                        "energy": ev["energy"], "finite": ev["finite"]})
        elif k == "ret_err":
            in_draw = False
            out.append({"e": "ret_err"})
        elif k == "draw_out":
            if ev["res"] != "ok":
                out.append({"e": "out", "res": ev["res"], "after": "search_err" if search_err else ""})
                search_err = False
                continue
            st = ev["stats"]
            energy = f_from_bits(sval(st, "energy"))
            eerr = f_from_bits(sval(st, "energy_error"))
            eerr_ok = (e0 is not None) and (bits_from_f(energy - e0) == bits_from_f(eerr)
                                            or (math.isnan(eerr) and math.isnan(energy - e0)))
            g = stat(st, "gradient")
            gh = "" if g is None else fnv_bits(g["v"])
            out.append({"e": "out", "res": "ok", "ph": ev["ph"], "depth": sval(st, "depth"),
                        "idx": sval(st, "index_in_trajectory"), "maxd": sval(st, "maxdepth_reached"),
                        "div": sval(st, "diverging"), "nsteps": sval(st, "n_steps"),
                        "pnsteps": ev["progress"]["num_steps"],
                        "logp": sval(st, "logp"), "energy": sval(st, "energy"), "eerrok": bool(eerr_ok),
                        "gh": gh, "finite": ev["finite"], "after": ""})
    return out


def fnv_bits(bitstrs):
    """Same FNV-1a as verif::hash_f64s, from bit-pattern strings."""
    h = 0xcbf29ce484222325
    for s in bitstrs:
        for b in reversed(bytes.fromhex(s)):   # little-endian byte order
            h ^= b
            h = (h * 0x100000001b3) & 0xFFFFFFFFFFFFFFFF
    return "%016x" % h


class EstimatorModel:
    """The documented step-size recursions (dual averaging / Adam), replayed from the statistics of the draws."""

    def __init__(self, method, opts, target):
        self.method, self.o, self.target = method, opts, target
        self.ready = False

    def restart(self, step):
        self.ready = step > 0 and math.isfinite(step)
        if not self.ready:
            return
        if self.method == "DualAverage":
            self.log_step = math.log(step)
            self.log_adapted = math.log(step)
            self.hbar = 0.0
            self.mu = math.log(10.0 * step)
            self.count = 1
        else:
            self.log_step = math.log(step)
            self.m = self.v = 0.0
            self.t = 0

    def advance(self, acc):
        if not self.ready or acc is None or not math.isfinite(acc):
            self.ready = False
            return
        if self.method == "DualAverage":
            o = self.o
            w = 1.0 / (self.count + o["t0"])
            self.hbar = (1.0 - w) * self.hbar + w * (self.target - acc)
            self.log_step = min(self.mu - self.hbar * math.sqrt(self.count) / o["gamma"], math.log(o["max_step_size"]))
            mk = self.count ** (-o["k"])
            self.log_adapted = mk * self.log_step + (1.0 - mk) * self.log_adapted
            self.count += 1
        else:
            o = self.o
            g = acc - self.target
            self.t += 1
            self.m = o["beta1"] * self.m + (1.0 - o["beta1"]) * g
            self.v = o["beta2"] * self.v + (1.0 - o["beta2"]) * g * g
            mh = self.m / (1.0 - o["beta1"] ** self.t)
            vh = self.v / (1.0 - o["beta2"] ** self.t)
            self.log_step += o["learning_rate"] * mh / (math.sqrt(vh) + o["epsilon"])

    def step(self, best):
        if not self.ready:
            return None
        try:
            if self.method == "DualAverage" and best:
                return math.exp(self.log_adapted)
            return math.exp(self.log_step)
        except OverflowError:
            return None


def project_adapt(sc, run):
    """AdaptScheduleTrace vocabulary: one line per draw. Returns (events, problems)."""
    from fractions import Fraction
    lines = []
    cur = {"ret": None, "adapt": None, "ss": [], "ss_set": [], "seq": [], "leaps": [], "e0": None}
    draws = []
    in_tree = False
    for ev in run:
        k = ev["ev"]
        if k == "traj_init":
            in_tree = True
            cur["e0"] = ev["e0"]
            cur["leaps"] = []
        elif k == "leap" and in_tree:
            cur["leaps"].append(ev)
        elif k == "ret_err":
            in_tree = False
        if k == "ret":
            in_tree = False
            cur["ret"] = ev
        elif k == "adapt":
            cur["adapt"] = ev
        elif k == "ss_advance":
            cur["ss"].append(ev)
            cur["seq"].append(ev)
        elif k == "ss_set":
            cur["ss_set"].append(ev)
            cur["seq"].append(ev)
        elif k == "search_end":
            cur["seq"].append(ev)
        elif k == "draw_out":
            cur["out"] = ev
            draws.append(cur)
            cur = {"ret": None, "adapt": None, "ss": [], "ss_set": [], "seq": [], "leaps": [], "e0": None}
    draws = [d for d in draws if d["out"]["res"] == "ok" and d["adapt"] is not None]
    if not draws:
        return [], []
    a0 = draws[0]["adapt"]
    kind = a0["kind"]
    num_tune = a0["num_tune"]
    st = sc.get("settings", {})
    ao = st.get("adapt_options", {})
    sss = ao.get("step_size_settings", {})
    # the effective settings (the crate's defaults with the scenario's values merged in), as the harness built them
    eff0 = next((e.get("settings") for e in run if e["ev"] == "schema" and e.get("settings")), None)
    if eff0 is not None:
        sss = eff0.get("adapt_options", {}).get("step_size_settings", sss)
    method = sss.get("adapt_options", {}).get("method", "DualAverage")
    if "mclmc" in sc["preset"]:
        method = "Fixed"
    max_step = sss.get("adapt_options", {}).get("dual_average", {}).get("max_step_size", math.pi)
    # the schedule constants the strategy reports must be the configured ones: recomputed from the effective settings
    # (defaults filled in by the crate) the harness built the chain from
    eff = next((e.get("settings") for e in run if e["ev"] == "schema" and e.get("settings")), None)
    constok = True
    if eff is not None:
        eao = eff.get("adapt_options", {})
        nt = eff.get("num_tune")
        if nt != num_tune:
            constok = False
        elif kind == "global":
            # window boundaries: the configured fractions of num_tune, whichever way they are rounded (the properties
            # do not fix the rounding); frequencies and growth: the configured values themselves
            want = {"early_freq": eao["early_mass_matrix_switch_freq"], "main_freq": eao["mass_matrix_switch_freq"],
                    "upd_freq": eao["mass_matrix_update_freq"], "growth": eao["mass_matrix_window_growth"]}
            constok = all(a0.get(k) == v for k, v in want.items())
            constok = constok and abs(a0["early_end"] - eao["early_window"] * nt) <= 1.0
            constok = constok and abs(a0["final_window"] - max(nt - eao["step_size_window"] * nt, 0.0)) <= 1.0
        else:
            constok = a0.get("upd_freq") == eao["transform_update_freq"]
            constok = constok and abs(a0["final_window"] - nt * (1.0 - eao["step_size_window"])) <= 1.0
    if kind == "global":
        g = Fraction(a0["growth"]).limit_denominator(1 << 20)
        if float(g) != a0["growth"]:
            g = Fraction(a0["growth"])
        reset = {"e": "reset", "kind": kind, "numTune": num_tune, "earlyEnd": a0["early_end"],
                 "finalWindow": a0["final_window"], "earlyFreq": a0["early_freq"], "mainFreq": a0["main_freq"],
                 "updFreq": a0["upd_freq"], "gn": g.numerator, "gd": g.denominator, "constok": bool(constok)}
    else:
        reset = {"e": "reset", "kind": kind, "numTune": num_tune, "earlyEnd": 0, "finalWindow": a0["final_window"],
                 "earlyFreq": 1, "mainFreq": 1, "updFreq": a0["upd_freq"], "gn": 1, "gd": 1, "constok": bool(constok)}
    lines.append(reset)
    # final averaged step size: the one in force when warm-up ends
    bar_final = None
    for d in draws:
        if d["adapt"]["draw"] == max(num_tune - 1, 0):
            bar_final = sval(d["out"]["stats"], "step_size_bar")
    good_pts = []      # (position, gradient) of the accepted draws so far, in order
    # the documented recursion of the estimator in use, replayed from the draws' own statistics (C07)
    ad = sss.get("adapt_options", {})
    da = dict({"k": 0.75, "t0": 10.0, "gamma": 0.05, "max_step_size": math.pi}, **ad.get("dual_average", {}))
    adam = dict({"beta1": 0.9, "beta2": 0.999, "epsilon": 1e-8, "learning_rate": 0.05}, **ad.get("adam", {}))
    model = None
    if method in ("DualAverage", "Adam"):
        model = EstimatorModel(method, da if method == "DualAverage" else adam, sss.get("target_accept", 0.8))
    first_search = True
    advanced = False   # has the step-size estimator been advanced since the last (re-)run of the search?
    grad_based = ao.get("mass_matrix_options", {}).get("use_grad_based_estimate", True)
    for d in draws:
        a, o = d["adapt"], d["out"]
        stt = o["stats"]
        # ---- which draws the estimator in use was built from (C09): recompute the diagonal scales from
        # ---- exactly the last `fg` accepted draws and compare with the reported mass matrix
        mmok = True
        if kind == "global" and "lowrank" not in sc["preset"]:
            pos, grd = stat(stt, "unconstrained_draw"), stat(stt, "gradient")
            is_good = None
            if d["ret"] is not None:
                idx0, div0 = d["ret"]["idx"], d["ret"]["div"]
                is_good = (abs(idx0) > 4) if div0 else (idx0 != 0)
            if pos is not None and grd is not None and is_good is not None:
                if a["branch"] == "mass" and is_good:
                    good_pts.append(([f_from_bits(x) for x in pos["v"]], [f_from_bits(x) for x in grd["v"]]))
                mm = stat(stt, "mass_matrix_inv")
                n = a.get("fg", 0)
                if a.get("changed") and mm is not None and 3 <= n <= len(good_pts):
                    window = good_pts[len(good_pts) - n:]
                    dim_ = len(window[0][0])

                    def welford(series):
                        mean = list(series[0])
                        var = [0.0] * dim_
                        for cnt, x in enumerate(series[1:], start=2):
                            for i in range(dim_):
                                diff = x[i] - mean[i]
                                mean[i] += diff * (1.0 / cnt)
                                var[i] += diff * diff
                        return mean, var
                    dm, dv = welford([w[0] for w in window])
                    gm, gv = welford([w[1] for w in window])
                    got = [f_from_bits(x) for x in mm["v"]]
                    mu_stat = stat(stt, "transformation_mu")
                    got_mu = [f_from_bits(x) for x in mu_stat["v"]] if mu_stat is not None else None
                    for i in range(dim_):
                        if grad_based:
                            val = math.sqrt(dv[i] / gv[i]) if gv[i] != 0 else float("nan")
                        else:
                            val = dv[i] * (1.0 / n)
                        if math.isfinite(val) and val != 0:
                            val = min(max(val, 1e-20), 1e20)
                            if not close(math.sqrt(val), got[i], rel=1e-9):
                                mmok = False
                            # the translation is built from the means of the same window
                            if got_mu is not None:
                                want_mu = dm[i] + val * gm[i] if grad_based else dm[i]
                                scale = abs(dm[i]) + abs(val * gm[i]) + 1e-300
                                if math.isfinite(want_mu) and abs(want_mu - got_mu[i]) > 1e-9 * scale:
                                    mmok = False
            else:
                good_pts = good_pts if is_good is None else good_pts
        # ---- low-rank estimator (C09): the diagonal scales of an update are (var(x) / var(grad))^(1/4) over exactly the
        # ---- draws the window holds - the last `fg` accepted ones (checked once the start point has left the window)
        if kind == "global" and "lowrank" in sc["preset"]:
            pos, grd = stat(stt, "unconstrained_draw"), stat(stt, "gradient")
            if pos is not None and grd is not None and d["ret"] is not None:
                idx0, div0 = d["ret"]["idx"], d["ret"]["div"]
                if a["branch"] == "mass" and ((abs(idx0) > 4) if div0 else (idx0 != 0)):
                    good_pts.append(([f_from_bits(x) for x in pos["v"]], [f_from_bits(x) for x in grd["v"]]))
                sd = stat(stt, "mass_matrix_stds")
                n = a.get("fg", 0)
                if a.get("changed") and sd is not None and 3 <= n <= len(good_pts):
                    window = good_pts[len(good_pts) - n:]
                    got = [f_from_bits(x) for x in sd["v"]]
                    for i in range(len(got)):
                        xs = [w[0][i] for w in window]
                        gs = [w[1][i] for w in window]
                        mx, mg = sum(xs) / n, sum(gs) / n
                        vx = sum((v - mx) ** 2 for v in xs) / n
                        vg = sum((v - mg) ** 2 for v in gs) / n
                        if vx > 0 and vg > 0 and math.isfinite(vx / vg):
                            if not close((vx / vg) ** 0.25, got[i], rel=1e-8):
                                mmok = False
        jit = None
        base = None
        if d["ss_set"]:
            # the band is the *configured* jitter (effective settings), not the one the strategy says it used
            jit = sss.get("jitter") if eff0 is not None else d["ss_set"][-1]["jitter"]
            base = f_from_bits(d["ss_set"][-1]["base"])
        step = f_from_bits(a["step"])
        bar_bits = sval(stt, "step_size_bar")
        bar = f_from_bits(bar_bits) if bar_bits else float("nan")
        j = jit if jit is not None else 0.0
        inband = True
        barsame = True
        if bar_final is not None:
            bf = f_from_bits(bar_final)
            inband = (bf * (1 - j) * (1 - 1e-12) <= step <= bf * (1 + j) * (1 + 1e-12))
            barsame = (bar_bits == bar_final)
        stepok = math.isfinite(step) and step > 0
        # the bound is stated for dual-averaging *updates*: the step the doubling search installs (at set_position or
        # when it is re-run) is not an update, and stays in force until the estimator is advanced for the first time
        if d["ss"]:
            advanced = True
        if a.get("research", False):      # the re-run happens after the estimator was fed and re-creates it
            advanced = False
        if method == "DualAverage" and advanced and not a.get("research", False):
            stepok = stepok and step <= max_step * (1 + j) * (1 + 1e-12)
        if d["ret"] is not None:
            idx, div = d["ret"]["idx"], d["ret"]["div"]
            good = "t" if ((abs(idx) > 4) if div else (idx != 0)) else "f"
        else:
            good = "na"
        # C07: the two acceptance statistics of the trajectory are the documented functions of the energy errors of
        # its leapfrogs: mean of min(1, e^d) and of 2 min(1, e^d) / (1 + e^d), d = E0 - E; a failed leapfrog counts 0
        accok = True
        if d["e0"] is not None and d["leaps"] and d["ret"] is not None:
            e0v = f_from_bits(d["e0"])
            s1 = s2 = 0.0
            usable = True
            for lp in d["leaps"]:
                if lp.get("res") == "ok":
                    diff = e0v - f_from_bits(lp["energy"])
                    if diff != diff:
                        usable = False
                        break
                    try:
                        a1 = math.exp(min(diff, 0.0))
                        s1 += a1
                        s2 += 2.0 * a1 / (1.0 + math.exp(diff))
                    except OverflowError:
                        s2 += 0.0 if diff > 0 else 2.0 * a1
                elif lp.get("res") == "div":
                    pass
                else:
                    usable = False
            n_l = len(d["leaps"])
            ra, rs = sval(stt, "mean_tree_accept"), sval(stt, "mean_tree_accept_sym")
            if usable and ra and rs:
                ga, gs = f_from_bits(ra), f_from_bits(rs)
                if math.isfinite(ga) and math.isfinite(gs):
                    accok = close(s1 / n_l, ga, rel=1e-12, abs_=1e-15) and close(s2 / n_l, gs, rel=1e-12, abs_=1e-15)
        daok = True
        if model is not None:
            for e2 in d["seq"]:
                if e2["ev"] == "search_end":
                    if e2["outcome"] == "fixed":
                        model = None
                        break
                    if e2["outcome"] == "found" or first_search:
                        model.restart(f_from_bits(e2["est"]))
                    first_search = False
                elif e2["ev"] == "ss_advance":
                    ref = sval(stt, "mean_tree_accept" if e2["which"] == "early" else "mean_tree_accept_sym")
                    model.advance(f_from_bits(ref) if ref else None)
                elif e2["ev"] == "ss_set":
                    want = model.step(bool(e2["best"]))
                    got = f_from_bits(e2["base"])
                    if want is not None and math.isfinite(got) and not close(want, got, rel=1e-9):
                        daok = False
        # ... and the *reported* averaged step size (statistic step_size_bar, extracted after the draw's updates) is the
        # documented weighted average of the iterates (dual averaging) / the current step (Adam)
        barok = True
        if model is not None and model.ready and bar_bits and a["tuning"]:
            want = model.step(True)
            if want is not None and math.isfinite(bar) and not close(want, bar, rel=1e-9):
                barok = False
        fedcalls = ",".join(x["which"] for x in d["ss"])
        fedvalok = True
        for x in d["ss"]:
            ref = sval(stt, "mean_tree_accept" if x["which"] == "early" else "mean_tree_accept_sym")
            if ref != x["val"]:
                fedvalok = False
        line = {"e": "adapt", "kind": kind, "draw": a["draw"], "branch": a["branch"], "fed": a["fed"],
                "tid": a["tid"], "tuning": a["tuning"], "ptuning": o["progress"]["tuning"],
                "stuning": sval(stt, "tuning"), "fedcalls": fedcalls, "fedvalok": fedvalok,
                "barsame": bool(barsame), "inband": bool(inband), "stepok": bool(stepok), "good": good,
                "diag": "lowrank" not in sc["preset"], "mmok": bool(mmok), "daok": bool(daok), "barok": bool(barok), "accok": bool(accok),
                "stepf": step if math.isfinite(step) else None, "barf": bar if math.isfinite(bar) else None}
        if kind == "global":
            line.update({"switched": a["switched"], "changed": a["changed"], "research": a["research"],
                         "fg": a["fg"], "bg": a["bg"], "win": a["win"], "lastUpdate": a["last_update"],
                         "hasInitial": a["has_initial"]})
        lines.append(line)
    return lines, []


def is_prefix(a, b):
    return len(a) <= len(b) and list(b[:len(a)]) == list(a)


def project_sampler(sc, run):
    """SamplerTrace vocabulary for one sampler run."""
    ref = next(e for e in run if e["ev"] == "reference")
    new = next((e for e in run if e["ev"] == "u_new"), None)
    if new is None:
        return []
    full_rec = ref["full_rec"]
    fp = ref["full_pos"]
    # no two chains produce the same draws (chains that never left a common start point have nothing to tell apart)
    def stuck(t):
        return len(set(t)) <= 1
    distinct = all(fp[i] != fp[j] or not fp[i] or (stuck(fp[i]) and stuck(fp[j]))
                   for i in range(len(fp)) for j in range(i + 1, len(fp)))
    out = [{"ev": "reset", "chains": new["chains"], "cores": new["cores"], "draws": new["draws"],
            "fullpos": fp, "distinct": distinct}]
    for e in run:
        k = e["ev"]
        if k in ("reference", "u_new"):
            continue
        e = {a: b for a, b in e.items() if a not in ("cat", "seq")}
        if k == "u_ret" and e.get("cmd") == "inspect" and e.get("ok"):
            tr = e.pop("trace")
            lens = [len(t) if t is not None else 0 for t in tr]
            while len(lens) < new["chains"]:
                lens.append(0)
            e["lens"] = lens
            # which chains the snapshot contains at all
            e["has"] = [(i < len(tr) and tr[i] is not None) for i in range(new["chains"])]
            e["prefixok"] = all(is_prefix(t or [], full_rec[i]) for i, t in enumerate(tr))
        if k == "ch_result":
            e.pop("msg", None)
            # a chain may end with an error only if something unrecoverable was injected into it (failing model
            # construction / init_position, failing storage, an unrecoverable density error); recoverable density faults
            # and retried initialisation attempts are no cause
            causes = set(sc.get("init_fail", [])) | set(sc.get("math_fail", [])) | {x[0] for x in sc.get("storage_faults", [])} \
                | {x[0] for x in sc.get("faults", []) if x[2] == "FatalErr"}
            e["spurious"] = (e.get("ok") is False) and (e.get("i") not in causes)
        if k == "u_ret":
            e.pop("msg", None)
        if k == "final":
            res = e["result"]
            tr = res.get("trace")
            oc = res["outcome"]["res"]
            lens = [0] * new["chains"]
            ok = True
            if tr is not None:
                for i, t in enumerate(tr):
                    if t is not None:
                        lens[i] = len(t)
                        ok = ok and is_prefix(t, full_rec[i])
            e = {"ev": "final", "outcome": oc, "prefixok": ok, "lens": lens, "hastrace": tr is not None}
        out.append(e)
    return out


def project_schema(sc, run):
    """StatsSchemaTrace vocabulary: reset with the declared schema, one line per draw."""
    sch = next((e for e in run if e["ev"] == "schema"), None)
    if sch is None:
        return []
    sizes = sch["dim_sizes"]
    names = sch["names"]
    types = [t.lower() for _, t in sch["types"]]
    lens = []
    for _, ds in sch["dims"]:
        n = 1
        for d in ds:
            n *= sizes.get(d, -1)
        lens.append(n)
    ev = [d or "" for _, d in sch["event_dims"]]
    out = [{"e": "reset", "names": names, "types": types, "lens": lens, "ev": ev}]
    last_tid = -1
    tid = None
    tfp = last_tfp = None
    for e in run:
        if e["ev"] == "adapt":
            tid = e["tid"]
            tfp = e.get("tfp")
        elif e["ev"] == "draw_out" and e["res"] == "ok":
            st = []
            for name, v in e["stats"]:
                if v is None:
                    st.append({"name": name, "present": False, "t": "", "n": 0})
                else:
                    st.append({"name": name, "present": True, "t": v["t"], "n": v["n"]})
            diverging = sval(e["stats"], "diverging")
            # the `diverging` statistic is the draw's own divergence flag (the one Progress reports)
            pdiv = e["progress"]["diverging"]
            divok = (diverging is None) or (bool(diverging) == bool(pdiv))
            diverging = pdiv
            # option-controlled statistics (not events): present on every draw iff their own flag is set
            pres = {x["name"]: x["present"] for x in st}
            stg = sc.get("settings", {})
            flagok = True
            for nm, flag in (("unconstrained_draw", "store_unconstrained"), ("gradient", "store_gradient"),
                             ("transformed_position", "store_transformed"), ("transformed_gradient", "store_transformed")):
                if nm in pres and flag in stg and pres[nm] != bool(stg[flag]):
                    flagok = False
            changed = (tid is not None and tid != last_tid and "flow" not in sc["preset"])
            # ... or, whatever the transformation's own change counter says, when what it does to a fixed probe point
            # differs from what it did after the previous draw (fingerprint from the adapt hook)
            if tfp is not None and last_tfp is not None and tfp != last_tfp and "flow" not in sc["preset"]:
                changed = True
            if tid is not None:
                last_tid = tid
            if tfp is not None:
                last_tfp = tfp
            out.append({"e": "draw", "st": st, "diverging": bool(diverging), "changed": bool(changed),
                        "counter": sval(e["stats"], "draw"), "chain": sval(e["stats"], "chain"), "flagok": bool(flagok) and bool(divok)})
    return out


def esh_closed_form(g, p0, step):
    """Independent evaluation of the ESH momentum update: returns (p1, dke)."""
    n = len(g)
    gn = math.sqrt(sum(x * x for x in g))
    gh = [x / gn for x in g]
    a = sum(p * x for p, x in zip(p0, gh))
    d = step * gn / (n - 1)
    if abs(d) < 300:
        ch, sh = math.cosh(d), math.sinh(d)
        den = ch + a * sh
        p1 = [(p + x * (sh + a * (ch - 1.0))) / den for p, x in zip(p0, gh)]
        dke = (n - 1) * math.log(den)
    else:
        # large |d|: divide through by e^|d|/2
        s = 1.0 if d > 0 else -1.0
        den_s = (1 + s * a)            # (cosh d + a sinh d) * 2 e^-|d|  (up to e^-2|d|)
        p1 = [(x * (s + a)) / den_s for x in gh]
        dke = (n - 1) * (abs(d) - math.log(2.0) + math.log(den_s))
    nrm = math.sqrt(sum(x * x for x in p1))
    p1 = [x / nrm for x in p1]
    return p1, dke


def project_mclmc(sc, run):
    st = sc["settings"]
    tk = st.get("trajectory_kind", "EuclideanEarlyThenMicrocanonical")
    frac = st.get("trajectory_switch_fraction", 0.3)
    switch_draw = int(frac * float(st["num_tune"]))
    dynamic = st.get("dynamic_step_size", True)
    out = [{"e": "reset", "tk": tk, "switchDraw": switch_draw}]
    eshok = True
    nesh = 0
    fresh = False
    for e in run:
        k = e["ev"]
        if k == "esh":
            g = [f_from_bits(x) for x in e["g"]]
            p0 = [f_from_bits(x) for x in e["p0"]]
            p1 = [f_from_bits(x) for x in e["p1"]]
            step = f_from_bits(e["step"])
            dke = f_from_bits(e["dke"])
            ke0 = f_from_bits(e["ke0"])
            nesh += 1
            if all(math.isfinite(x) for x in g + p0 + [step]) and any(x != 0 for x in g):
                try:
                    q1, d1 = esh_closed_form(g, p0, step)
                    # the closed form mixes e^delta and e^-delta (delta = eps |g| / (d - 1)): two evaluations of the same
                    # formula agree to about eps_machine * e^(2 delta); beyond delta = 12 nothing can be compared
                    delta = abs(step) * math.sqrt(sum(x * x for x in g)) / max(len(g) - 1, 1)
                    if delta > 12:
                        raise OverflowError
                    tol = max(1e-9, 64 * 2.3e-16 * math.exp(2 * delta))
                    ok = all(abs(a - b) <= tol for a, b in zip(p1, q1))
                    ok = ok and abs(dke - d1) <= tol * (1 + abs(d1) + abs(ke0))
                    ok = ok and abs(sum(x * x for x in p1) - 1.0) <= 1e-9
                except (OverflowError, ValueError, ZeroDivisionError):
                    ok = True   # outside the range where the closed form can be evaluated independently
                eshok = eshok and ok
        elif k == "mswitch":
            out.append({"e": "mswitch", "draw": e["draw"]})
        elif k == "mstart":
            eps = f_from_bits(e["eps"])
            L = e["length"]
            nb = 1
            if L is not None:
                try:
                    x = e["freq"] * L / eps
                    nb = int(min(max(float(round_half_away(x)), 1.0), 1e6))
                except (OverflowError, ValueError, ZeroDivisionError):
                    nb = -1
            vn = f_from_bits(e["vnorm2"])
            out.append({"e": "mstart", "numBase": e["num_base"], "maxh": e["maxh"], "dynamic": bool(dynamic),
                        "nbok": nb == e["num_base"], "kind": e["kind"], "resample": e["resample"],
                        "unit": abs(vn - 1.0) <= 1e-9, "ph": e["ph"]})
            eshok = True
        elif k == "mstep":
            fexp = int(round(-math.log2(e["factor"])))
            fresh = False
            line = {"e": "mstep", "res": e["res"], "fexp": fexp, "remaining": e["remaining"], "depth": e["depth"],
                    "steps": e["steps"], "eshok": eshok, "unit": True}
            if e["res"] == "ok":
                vn = f_from_bits(e["vnorm2"])
                # the norm is only constrained for the microcanonical kind; the start event carries the kind
                micro = next((x for x in reversed(out) if x["e"] == "mstart"), {}).get("kind") == "Microcanonical"
                line["unit"] = (abs(vn - 1.0) <= 1e-9) if micro else True
            out.append(line)
            eshok = True
        elif k == "momentum":
            # a momentum drawn inside the kernel (after the steps): fresh iff it was resampled
            fresh = bool(e.get("resample"))
        elif k == "mend":
            micro = next((x for x in reversed(out) if x["e"] == "mstart"), {}).get("kind") == "Microcanonical"
            vn = f_from_bits(e["vnorm2"])
            out.append({"e": "mend", "div": e["div"], "steps": e["steps"], "ph": e["ph"],
                        "unit": (abs(vn - 1.0) <= 1e-9) if micro else True, "fresh": bool(fresh)})
        elif k == "draw_out" and e["res"] == "ok":
            out.append({"e": "out", "numsteps": e["progress"]["num_steps"], "snumsteps": sval(e["stats"], "num_steps"),
                        "diverging": e["progress"]["diverging"], "ph": e["ph"]})
    return out, nesh


def round_half_away(x):
    return math.floor(x + 0.5) if x >= 0 else -math.floor(-x + 0.5)


# ------------------------------------------------------------------ storage (C14 / C15)
IDENT = ("divergence_draw", "divergence_message", "transformation_update_id")
CSV_STATS = {"lp__": "logp", "accept_stat__": "mean_tree_accept", "stepsize__": "step_size", "treedepth__": "depth",
             "n_leapfrog__": "n_steps", "divergent__": "diverging", "energy__": "energy"}


def name_hash(name):
    return sum(name.encode()) % 5


def cell_value(name, t, c, r, j, specials):
    nh = name_hash(name)
    if t in ("f64", "f32"):
        if specials and j >= 1:
            m = (r + j + nh) % 7
            if m == 3:
                return float("nan")
            if m == 5:
                return float("-inf")
            if m == 6:
                return float("inf")
        return float(r * 64 + c * 8 + j) + nh * 0.125 + 0.125
    if t == "i64":
        return -(r * 1000 + c * 100 + j * 10 + nh) - 1
    if t == "u64":
        return r * 1000 + c * 100 + j * 10 + nh + 1
    if t == "bool":
        return (r + c + j + nh) % 2 == 0
    if specials and (r + nh) % 3 == 0:
        return ""
    return "s%d_%d_%d_%d" % (c, r, j, nh)


def canon(x, t):
    if t in ("f64", "f32"):
        return "nan" if math.isnan(x) else bits_from_f(x)
    if t == "bool":
        return "true" if x else "false"
    return str(x)


def csv_fmt(x, t, prec):
    if t in ("f64", "f32"):
        if math.isnan(x):
            return "NA"
        if math.isinf(x):
            return "Inf" if x > 0 else "-Inf"
        return "%.*f" % (prec, x)
    if t == "bool":
        return "1" if x else "0"
    return str(x)


def var_desc(v, is_stat):
    name = v["name"]
    kind = "plain"
    if v["t"] == "bool":
        if v["scalar"]:
            kind = {"tuning": "bool_tuning", "diverging": "bool_div"}.get(name, "bool_parity") if is_stat else "bool_parity"
        else:
            kind = "boolvec"
    elif v["t"] == "string":
        kind = "string"
    ev = (v.get("event") or "") if is_stat else ""
    return {"name": name, "ev": ev, "ident": name in IDENT, "opt": bool(is_stat and not ev and not v["scalar"]),
            "kind": kind, "nh": name_hash(name)}


def decode_row(cells, v, t, n, c, maxr, specials, fmt=canon, flags=None):
    """cells: list of canonical strings or None."""
    if cells is None:
        return -2
    if len(cells) == 0 and n > 0:
        return -1          # an empty list where a null or n values belong
    desc_kind = v["kind"]
    if desc_kind in ("bool_tuning", "bool_div", "bool_parity"):
        return 1000 + (1 if cells[0] in ("true", "1") else 0) if len(cells) == 1 else -1
    if desc_kind == "boolvec":
        for p in (0, 1):
            if all(cells[j] == ("true" if (p + j) % 2 == 0 else "false") for j in range(len(cells))):
                return 2000 + p
        if all(x == "false" for x in cells):
            return -2
        return -1
    if t in ("f64", "f32") and (all(x == "nan" for x in cells) or all(x == "0000000000000000" for x in cells)):
        return -2
    if t in ("i64", "u64") and all(x == "0" for x in cells):
        return -2
    if t == "string" and cells == [""]:
        return -4
    found = [r for r in range(maxr) if [fmt(cell_value(v["name"], t, c, r, j, specials), t) for j in range(n)] == list(cells)]
    return found[0] if len(found) == 1 else -1


def project_storage(d):
    sc, res = d["scenario"], d["result"]
    backend = sc["backend"]
    specials = sc.get("specials", True)
    prec = sc.get("precision", 6)
    chains = sc["chains"]
    out = [{"e": "reset", "chains": chains, "storeWarmup": sc.get("store_warmup", True),
            "fullEvents": sc.get("full_events", True), "optVecs": sc.get("optvecs", True), "specials": specials,
            "numTune": sc["num_tune"], "numDraws": sc["num_draws"]}]
    if "events" not in res:
        out.append({"e": "observe", "ok": False, "entries": [], "complete": False, "why": json.dumps(res)[:300]})
        return out
    stats = {v["name"]: v for v in res["stat_schema"]}
    draws = {v["name"]: v for v in res["draw_schema"]}
    maxr = sc["num_tune"] + sc["num_draws"] + 2
    counts = [0] * chains
    ev_counts = {}

    def entries_of(view, final):
        ents, seen = [], set()
        for x in view or []:
            if x.get("missing") or "error" in x:
                continue
            g = x["group"]
            if backend == "csv":
                hdr = x["header"]
                c = x["chain"]
                cols = {}
                for k, h in enumerate(hdr):
                    base = CSV_STATS.get(h)
                    if base is not None:
                        if base in stats:
                            cols.setdefault(("stats", base), []).append((0, k))
                    else:
                        nm = h.split(".")[0]
                        if nm in draws:
                            idx = [int(p) - 1 for p in h.split(".")[1:]]
                            shape = draws[nm]["shape"]
                            flat = 0
                            for a, sdim in zip(idx, shape):
                                flat = flat * sdim + a
                            cols.setdefault(("draws", nm), []).append((flat, k))
                for (grp, nm), lst in cols.items():
                    sch = stats[nm] if grp == "stats" else draws[nm]
                    lst.sort()
                    v = var_desc(sch, grp == "stats")
                    rows = []
                    for line in x["rows"]:
                        cells = [line[k] if k < len(line) else "?" for _, k in lst]
                        if len(lst) != sch["n"]:
                            rows.append(-1)
                            continue
                        if v["kind"] == "string" and cells == [""]:
                            rows.append(-4)
                            continue
                        if grp == "stats" and sch["name"] == "diverging":
                            rows.append(1000 + (1 if cells[0] == "1" else 0))
                            continue
                        rows.append(decode_row(cells, v, sch["t"], sch["n"], c, maxr, specials,
                                               fmt=lambda val, t: csv_fmt(val, t, prec)))
                    ents.append({"layout": "csv", "chain": c, "phase": "all", "v": v, "rows": rows, "maxcount": 0})
                    seen.add((grp, nm, c))
                continue
            nm = x["var"]
            is_stat = g in ("stats", "sample_stats", "warmup_sample_stats")
            sch = stats.get(nm) if is_stat else draws.get(nm)
            if sch is None:
                continue
            if nm in ("draw", "chain") and backend != "arrow":
                continue
            c = x["chain"]
            v = var_desc(sch, is_stat)
            rows = [decode_row(r, v, sch["t"], sch["n"], c, maxr, specials) for r in x["rows"]]
            phase = "all"
            if backend == "hashmap":
                layout = "compact_split"
            elif backend == "arrow":
                layout = "dense_nulls"
            elif backend == "ndarray":
                layout = "dense_fill"
            else:
                phase = "warm" if g.startswith("warmup") else "sample"
                if v["ev"]:
                    layout = "zarr_event_final" if final else "zarr_event"
                else:
                    layout = "zarr_plain"
            ents.append({"layout": layout, "chain": c, "phase": phase, "v": v, "rows": rows,
                         "maxcount": ev_counts.get((v["ev"], phase, v["name"]), 0)})
            seen.add(("stats" if is_stat else "draws", nm, c, phase))
        return ents, seen

    def expected_keys():
        keys = set()
        for c in range(chains):
            if backend == "csv":
                # a chain file without a single kept record is a header only: nothing to demand of it
                kept = sum(1 for (t, _dv, _up) in log[c] if sc.get("store_warmup", True) or not t)
                if kept == 0:
                    continue
                for nm in CSV_STATS.values():
                    if nm in stats:
                        keys.add(("stats", nm, c))
                for nm in draws:
                    keys.add(("draws", nm, c))
                continue
            phases = ["warm", "sample"] if backend.startswith("zarr") else ["all"]
            for ph in phases:
                for nm in stats:
                    if nm in ("draw", "chain") and backend != "arrow":
                        continue
                    keys.add(("stats", nm, c, ph))
                for nm in draws:
                    keys.add(("draws", nm, c, ph))
        return keys

    log = [[] for _ in range(chains)]
    for e in res["events"]:
        if e["e"] == "record":
            out.append({"e": "record", "chain": e["chain"], "tuning": bool(e["tuning"]), "div": bool(e["div"]),
                        "upd": bool(e["upd"]), "ok": bool(e["ok"]), "err": e.get("err") or ""})
            if e["ok"]:
                log[e["chain"]].append((bool(e["tuning"]), bool(e["div"]), bool(e["upd"])))
        elif e["e"] == "flush":
            out.append({"e": "flush", "ok": bool(e["ok"])})
        elif e["e"] == "observe":
            kind = e["kind"]
            if "fail" in e:
                out.append({"e": "observe", "ok": False, "entries": [], "complete": False, "why": e["fail"][:300], "kind": kind})
                continue
            final = kind == "finalize"
            if final and backend.startswith("zarr"):
                # size of event arrays after finalize: the largest event count over chains, per event and phase
                full = sc.get("full_events", True)
                for nm, sch in stats.items():
                    evn = sch.get("event")
                    if not evn:
                        continue
                    for ph in ("warm", "sample"):
                        mx = 0
                        for c in range(chains):
                            n = 0
                            for (t, dv, up) in log[c]:
                                if (t if ph == "warm" else not t) and (dv if evn == "divergence" else up):
                                    n += 1
                            mx = max(mx, n)
                        if ph == "warm" and not sc.get("store_warmup", True):
                            mx = 0
                        ev_counts[(evn, ph, nm)] = mx
            if kind in ("flushed", "reader") and not backend.startswith("zarr"):
                continue
            if backend == "csv" and kind == "inspect":
                continue   # CSV inspection has no result by design (files are complete after finalize)
            if kind in ("flushed", "reader") or (backend.startswith("zarr") and kind == "inspect"):
                ents, seen = entries_of(e["view"] if kind != "inspect" else e.get("reader"), False)
                out.append({"e": "reader", "entries": ents, "complete": expected_keys() <= seen, "kind": kind})
            else:
                ents, seen = entries_of(e["view"], final)
                out.append({"e": "observe", "ok": e.get("err") is None, "entries": ents,
                            "complete": expected_keys() <= seen, "kind": kind, "why": e.get("err") or ""})
    if res["status"] != "ok":
        out.append({"e": "observe", "ok": False, "entries": [], "complete": False, "kind": "crash", "why": json.dumps(res["status"])[:300]})
    return out


def project_search(sc, run):
    """StepSizeSearchTrace vocabulary. Returns the list of lines of all searches of one chain."""
    lines = [{"e": "reset"}]
    cur = None     # state of the search being projected
    last_leap = None
    # initial step and target: the configured ones (effective settings the harness built the chain from)
    eff = next((e.get("settings") for e in run if e["ev"] == "schema" and e.get("settings")), None)
    esss = (eff or {}).get("adapt_options", {}).get("step_size_settings", {})
    for ev in run:
        k = ev["ev"]
        if k == "search_start":
            cur = {"initial": esss.get("initial_step", f_from_bits(ev["initial"])),
                   "target": esss.get("target_accept", f_from_bits(ev["target"])),
                   "est0": ev["est"], "acc0": None}
            last_leap = None
            lines.append({"e": "start"})
        elif k == "leap" and cur is not None:
            last_leap = ev
        elif k == "search_try":
            if cur is None:
                lines.append({"e": "orphan_try"})
                continue
            step = f_from_bits(ev["step"])
            acc = f_from_bits(ev["acc"])
            kexp = 9999
            if step > 0 and math.isfinite(step):
                kk = round(math.log2(step / cur["initial"]))
                try:
                    if math.ldexp(cur["initial"], kk) == step:
                        kexp = kk
                except OverflowError:
                    pass
            if ev["res"] == "ok":
                side = "above" if acc > cur["target"] else ("below" if acc < cur["target"] else "equal")
                if acc != acc:
                    side = "equal_nan"
            else:
                side = "below"
            same = True
            if ev["n"] == 0:
                cur["acc0"] = (ev["acc"], ev["res"])
            elif ev["n"] == 1 and cur["acc0"] is not None:
                same = (cur["acc0"] == (ev["acc"], ev["res"]))
            # the probe's acceptance is the documented function of its one leapfrog: min(1, exp(E0 - E)), 0 for a failed one
            accok = True
            if last_leap is not None and last_leap.get("res") == "ok" and last_leap.get("energy") and last_leap.get("e0") \
                    and ev["res"] == "ok":
                diff = f_from_bits(last_leap["e0"]) - f_from_bits(last_leap["energy"])
                if diff == diff and acc == acc:
                    accok = close(acc, math.exp(min(diff, 0.0)), rel=1e-12, abs_=1e-300)
            elif last_leap is not None and last_leap.get("res") == "div" and acc == acc:
                accok = (acc == 0.0)
            last_leap = None
            lines.append({"e": "try", "n": ev["n"], "dir": ev["dir"], "res": ev["res"], "side": side,
                          "kexp": kexp, "hi": bool(step > 1e5), "lo": bool(step < 1e-10), "same": bool(same),
                          "accok": bool(accok), "dbg": "acc=%r step=%r" % (acc, step)})
        elif k == "search_end":
            step = f_from_bits(ev["step"])
            if ev["outcome"] == "fixed":
                method = sc.get("settings", {}).get("adapt_options", {}).get("step_size_settings", {}) \
                           .get("adapt_options", {}).get("method")
                want = method["Fixed"] if isinstance(method, dict) else None
                lines.append({"e": "end", "outcome": "fixed", "kexp": 0 if (want is None or want == step) else 9999,
                              "est": "both"})
                continue
            if cur is None:
                lines.append({"e": "orphan_end"})
                continue
            kexp = 9999
            if step > 0 and math.isfinite(step):
                kk = round(math.log2(step / cur["initial"]))
                try:
                    if math.ldexp(cur["initial"], kk) == step:
                        kexp = kk
                except OverflowError:
                    pass
            est = f_from_bits(ev["est"])
            unchanged = (ev["est"] == cur["est0"])
            final = close(est, step, rel=1e-12)
            lines.append({"e": "end", "outcome": ev["outcome"], "kexp": kexp,
                          "est": "both" if (unchanged and final) else "final" if final else "unchanged" if unchanged else "none",
                          "dbg": "step=%r est=%r" % (step, est)})
            cur = None
    return lines


def project_momentum(sc, run):
    """MomentumTrace vocabulary."""
    lines = [{"e": "reset"}]
    for ev in run:
        k = ev["ev"]
        if k == "momentum":
            lines.append({"e": "momentum", "resample": bool(ev["resample"]), "ke_ok": bool(ev.get("ke_ok", False)),
                          "dim": ev.get("dim", -1), "found": ev.get("found", "no"), "from": ev.get("from", -1),
                          "to": ev.get("to", -1), "micro": bool(ev.get("micro"))})
        elif k == "leap":
            if lines[-1]["e"] != "leap":          # only the first leapfrog after a boundary matters
                lines.append({"e": "leap"})
        elif k == "search_start":
            lines.append({"e": "search"})
        elif k in ("set_position", "draw_out"):
            lines.append({"e": "end", "call": k, "res": ev.get("res")})
    return lines
