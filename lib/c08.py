"""C08: mass-matrix adaptation.
 1. TLC: MassMatrixUpdate (decision table over value classes + history) - NeverDegenerate, KeepsPrevious
    over all histories; spec->code: every history is executed on the real DiagAdaptStrategy (both update
    rules) and LowRankMassMatrixStrategy and the real scales compared with what the tokens denote
 2. MassMatrixGauss: Gaussian windows (any size >= 3, placement, scales 2^-20..2^20, offsets) with the
    exact expected scale; real estimators must return it (bit for bit when the mean is 0), the low-rank
    estimator must whiten (gradient = -position) up to its regularisation
"""
import json, os
import common as C


def mc_cfg(tier):
    if tier == "quick":
        return dict(dim=2, rounds=2, counts="{2, 4}", init0="OkOnly", initr="OkOnly")
    return dict(dim=3, rounds=2, counts="{2, 4}", init0="OkOnly", initr="OkOnly")


def histories(chk, tier):
    p = mc_cfg(tier)
    summ_all = {"cases": 0, "checks": 0, "kinds": {}, "failures": [], "stat": {}}
    runs = [("windows", p)]
    # three coordinates, one window, several data sets per history (the low-rank decomposition depends on the numbers)
    runs.append(("dim3", dict(dim=3, rounds=1, counts="{4}", init0="OkOnly", initr="OkOnly", repeat=8 if tier == "quick" else 40)))
    # every initialisation class, one window
    runs.append(("init", dict(dim=2, rounds=1, counts="{2, 4}" if tier == "quick" else "{2, 3, 6}", init0="AllInit", initr="OkNan")))
    if tier != "quick":
        runs.append(("sizes", dict(dim=2, rounds=2, counts="{2, 3, 6}", init0="OkOnly", initr="OkNan")))
    for name, q in runs:
        cfg = os.path.join(C.WORK, "c08_%s.cfg" % name)
        with open(cfg, "w") as f:
            f.write("CONSTANTS\n  Dim = %d\n  Rounds = %d\n  Counts = %s\n  Cls0 <- AllCls\n  RestPairs <- Rest3\n"
                    "  InitCls0 <- %s\n  InitClsRest <- %s\n  Rules <- AllRules\nSPECIFICATION MMSpec\nINVARIANTS MMInv Emit\n"
                    "CHECK_DEADLOCK FALSE\n" % (q["dim"], q["rounds"], q["counts"], q["init0"], q["initr"]))
        outp = os.path.join(C.WORK, "c08_%s.out" % name)
        r = C.tlc("MC_MassMatrixUpdate.tla", cfg, "c08_" + name, timeout=7200, workers=8, out_path=outp)
        C.require_tlc_ok(r, "MassMatrixUpdate")
        chk.add_tlc(r, "update_mc_" + name)
        if r["violated"]:
            chk.violation("spec:massmatrix", "MassMatrixUpdate invariant %s violated" % r["violated"], r["out"][-3000:])
            continue
        summ = os.path.join(C.WORK, "c08_%s.json" % name)
        C.vh(["replay-massmatrix", outp, summ], timeout=7200, env={"C08_REPEAT": str(q.get("repeat", 1))})
        os.remove(outp)
        s = json.load(open(summ))
        if s["cases"] == 0:
            raise C.ToolError("no histories were replayed (%s)" % name)
        chk.part("history_replay_" + name, cases=s["cases"], checks=s["checks"], kinds=s["kinds"], failures=s["failures"],
                 windows_installed=s["windows_installed"], kept_estimated_value=s["kept_estimated_value"],
                 kept_initial_value=s["kept_initial_value"], lowrank_valid_window_not_used=s["lowrank_valid_window_not_used"])
        chk.cov["evaluations"] += s["checks"]
        chk.cov["distinct_nontrivial"] += s["windows_installed"] + s["kept_estimated_value"]
        chk.cov["traces_validated_against_impl"] += s["cases"]
        for x in s["samples"][:1]:
            chk.sample({"history": x})
        if name == "windows" and not s["failures"] and (s["kept_estimated_value"] == 0 or s["windows_installed"] == 0):
            raise C.ToolError("vacuous: no history kept an estimated value / installed an estimate")
        for f in s["first_failures"]:
            chk.violation(f["key"], "mass-matrix history: " + f["mismatch"][:1500], f)


def gaussians(chk, tier):
    cfg = os.path.join(C.WORK, "c08_gauss.cfg")
    full = tier != "quick"
    with open(cfg, "w") as f:
        f.write("CONSTANTS\n  Dims = %s\n  Sizes = %s\n  Exps <- %s\n  Mus <- %s\n  Patterns <- %s\n  LowRankDims = %s\n  Ranks = {0, 1, 2}\n  Splits = %s\n"
                "SPECIFICATION Spec\nCHECK_DEADLOCK FALSE\n" %
                ("{1, 2, 3, 5, 17, 50}" if full else "{1, 2, 3, 5, 50}", "{3, 4, 7, 20}" if full else "{3, 4, 7}",
                 "ExpsFull" if full else "ExpsQuick", "MusFull" if full else "MusQuick", "PatsFull" if full else "PatsQuick",
                 "{2, 3, 6, 12, 50}" if full else "{2, 3, 6, 20}", "{0, 1, 2, 3}" if full else "{0, 2}"))
    r = C.tlc("MC_MassMatrixGauss.tla", cfg, "c08_gauss", timeout=3000, workers=1)
    C.require_tlc_ok(r, "MassMatrixGauss")
    lines = C.replay_lines(r["out"])
    # (a) default regularisation: loose bound; (b) regularisation -> 0: the recovery is exact
    for label, env in [("default_gamma", {"C08_GAMMA": "1e-5", "C08_LOWRANK_TOL": "0.05"}),
                       ("gamma_1e-12", {"C08_GAMMA": "1e-12", "C08_LOWRANK_TOL": "1e-7"})]:
        summ = os.path.join(C.WORK, "c08_gauss_%s.json" % label)
        use = lines if label == "default_gamma" else [l for l in lines if "gauss_lowrank" in l]
        C.vh(["replay-massmatrix", "-", summ], stdin="\n".join(use) + "\n", timeout=3000, env=env)
        s = json.load(open(summ))
        if s["cases"] == 0:
            raise C.ToolError("no Gaussian windows were replayed")
        chk.part("gauss_replay_" + label, cases=s["cases"], checks=s["checks"], kinds=s["kinds"], failures=s["failures"],
                 lowrank_worst_residual=s["lowrank_worst_residual"])
        chk.cov["evaluations"] += s["checks"]
        chk.cov["distinct_nontrivial"] += s["cases"]
        chk.cov["traces_validated_against_impl"] += s["cases"]
        for x in s["samples"][:1]:
            chk.sample({"gaussian_window": x})
        for f in s["first_failures"]:
            chk.violation(f["key"] + ":" + label, "Gaussian window (%s): %s" % (label, f["mismatch"][:1500]), f)


def run(tier):
    chk = C.Check("C08", "model_checking", tier)
    chk.cov["rule"] = ("(never degenerates / keeps previous) every history of MassMatrixUpdate.tla - initialisation gradient class, then "
                       "windows whose per-coordinate draw / gradient variances are ordinary, zero, tiny, huge, overflowing, NaN or inf, "
                       "window sizes below and above 3, both diagonal update rules and the low-rank estimator - is executed on the real "
                       "estimators; after every step every scale, inverse scale, eigen scale and log-determinant must be finite and "
                       "positive, and each scale must be the number its token denotes (previous value bit for bit, clamp limit, or the "
                       "window's estimate to 1e-9); non-trivial: a window that installs an estimate or keeps an earlier estimate. "
                       "(Gaussian exactness) every window of MassMatrixGauss.tla; expected scale 2^e, bit for bit when the mean is 0")
    chk.assumptions = [
        "value classes are realised by one representative window each (entries about 1e-30 / 1e30 / 1e170, one NaN / inf entry)",
        "the estimate a window should install is recomputed harness-side with the estimator's own accumulation formula (declared numeric predicate, 1e-9)",
        "low-rank exactness holds up to the estimator's regularisation gamma by design: residual |grad + position| / |position| <= 0.05 at the "
        "default gamma = 1e-5 and <= 1e-7 at gamma = 1e-12 (observed worst 4.6e-3 / 5e-10); windows span the space (n >= d + 2)",
        "the draw-only diagonal rule estimates a sample variance, which cannot equal the target's for arbitrary draws: only non-degeneracy is demanded of it",
        "a valid low-rank window may also be left unused (failed decomposition); never observed",
    ]
    C.build_harness()
    histories(chk, tier)
    gaussians(chk, tier)
    return chk.finish()


def replay(path):
    print(open(path).read()[:6000])
    return 0
