"""C06 / C09 (and the routing + boundedness part of C07): the warm-up schedule.
 1. TLC: AdaptSchedule invariants over all good/rejected histories and schedule constants
 2. code->spec: one projected line per draw of real chains (all six presets, many num_tune, window
    fractions, frequencies, growth factors, jitter settings, step-size methods) validated against
    AdaptScheduleTrace, which predicts counts, switches, updates, re-search, routing and tuning flags
"""
import json, os
import common as C
import project, scenarios
from c03 import record_runs

ASSUME = [
    "schedule constants (early_end, final window) are read from the implementation through the hook and only sanity-bounded",
    "harness-side predicates (declared): step size inside jitter band around the final averaged step size (1e-12 relative), "
    "averaged step size bit-identical after warm-up, statistic value fed to the estimator bit-identical to the draw's reported statistic",
    "good/rejected for NUTS is recomputed from the draw's index and divergence flag; for MCLMC it is inferred by TLC from the counts",
]


def schedule_mc(chk, tier):
    cfg = os.path.join(C.WORK, "c06_mc.cfg")
    with open(cfg, "w") as f:
        f.write("CONSTANTS\n  MaxTune = %d\n  ExtraDraws = 2\nSPECIFICATION MCSpec\nINVARIANTS ScheduleInv\nCHECK_DEADLOCK FALSE\n"
                % (9 if tier == "quick" else 12))
    r = C.tlc("MC_AdaptSchedule.tla", cfg, "c06_mc", timeout=3000)
    C.require_tlc_ok(r, "AdaptSchedule")
    chk.add_tlc(r, "schedule_mc")
    if r["violated"]:
        chk.violation("spec:schedule", "AdaptSchedule invariant %s violated" % r["violated"], r["out"][-3000:])
    # vacuity: the interesting situations must be reachable
    for inv in ["NoSwitch", "NoLateFeedInMass", "NoResearch", "NoGrowth"]:
        cfg2 = os.path.join(C.WORK, "c06_vac.cfg")
        with open(cfg2, "w") as f:
            f.write("CONSTANTS\n  MaxTune = 7\n  ExtraDraws = 1\nSPECIFICATION MCSpec\nINVARIANTS %s\nCHECK_DEADLOCK FALSE\n" % inv)
        rv = C.tlc("MC_AdaptSchedule.tla", cfg2, "c06_vac", timeout=600)
        if rv["violated"] != inv:
            raise C.ToolError("vacuity guard %s not reachable in AdaptSchedule" % inv)


def classify(f):
    """A stable key for a rejected schedule line: which binding failed."""
    ev = f["event"]
    nt = f["meta"]["settings"]["num_tune"]
    d = ev.get("draw")
    reasons = []
    if ev.get("e") == "reset" and not ev.get("constok", True):
        return "schedule_constants_are_not_the_configured_ones"
    if ev.get("e") != "adapt":
        return "unexplained:%s" % ev.get("e")
    if ev["ptuning"] != (d < nt):
        reasons.append("progress_tuning")
    if ev["stuning"] != (d < nt):
        reasons.append("stats_tuning")
    if d >= nt - 1 and not ev["inband"]:
        reasons.append("step_outside_band@%s" % ("last_warmup_draw" if d == nt - 1 else "post_warmup"))
    if d >= nt and not ev["barsame"]:
        reasons.append("averaged_step_changed")
    if not ev["stepok"]:
        reasons.append("step_unbounded")
    if not ev["fedvalok"]:
        reasons.append("wrong_statistic_value")
    if not ev.get("accok", True):
        reasons.append("acceptance_statistic_is_not_the_documented_function_of_the_energy_errors")
    if not ev.get("daok", True):
        reasons.append("step_is_not_the_documented_update_of_the_statistics")
    if not ev.get("barok", True):
        reasons.append("reported_averaged_step_is_not_the_weighted_average_of_the_iterates")
    if not ev.get("mmok", True):
        reasons.append("estimate_not_from_the_window_draws")
    if not reasons:
        reasons.append("schedule_mismatch:%s" % ev.get("branch"))
    return "+".join(reasons)


def run_shared(pid, tier, level="model_checking", n=None):
    chk = C.Check(pid, level, tier)
    chk.cov["rule"] = ("every draw of every recorded chain yields one line (adapt hook event joined with Progress and stats); "
                       "AdaptScheduleTrace must explain each; a line is non-trivial if it switched, changed the transformation, "
                       "re-ran the search or is the first post-warm-up draw; distinct by (scenario, draw)")
    chk.assumptions = ASSUME
    C.build_harness()
    schedule_mc(chk, tier)
    if n is None:
        n = 180 if tier == "quick" else 1800
    scs = scenarios.schedule_scenarios(C.seed() * 7907 + 3, n)
    raw = record_runs(scs, pid.lower())
    runs, api = [], []
    lines = nontriv = 0
    for sc, run_ev in project.read_runs(raw):
        for e in run_ev:
            if e["ev"] == "new_chain" and e.get("ok") is False:
                api.append(("panic:new_chain:num_tune=%d" % sc["settings"]["num_tune"] if sc["settings"]["num_tune"] == 0
                            else "panic:new_chain", sc, e))
            if e["ev"] == "set_position" and e.get("res") == "panic":
                api.append(("panic:set_position", sc, e))
            if e["ev"] == "draw_out" and e["res"] == "panic":
                jit = sc["settings"].get("adapt_options", {}).get("step_size_settings", {}).get("jitter", "default")
                api.append(("panic:draw:%s" % ("jitter=0" if jit == 0.0 and "jitter" in e["msg"] else e["msg"][:40]), sc, e))
        pe, _ = project.project_adapt(sc, run_ev)
        if pe:
            runs.append((sc, pe))
            for x in pe[1:]:
                lines += 1
                if x.get("switched") or x.get("changed") or x.get("research") or x["draw"] == sc["settings"]["num_tune"]:
                    nontriv += 1
    failures, st = C.validate_runs("AdaptScheduleTrace.tla", "AdaptScheduleTrace.cfg", runs, pid.lower(), max_rejections=40)
    chk.cov["states"] += st["states"]
    chk.cov["transitions"] += st["generated"]
    chk.cov["traces_validated_against_impl"] += st["runs_validated"]
    chk.part("trace_validation", chains=len(runs), chains_validated=st["runs_validated"], lines=lines,
             tlc_runs=st["tlc_runs"], wall_s=round(st["wall"], 1), cmd=st["cmd"])
    chk.cov["evaluations"] = lines
    chk.cov["distinct_nontrivial"] = nontriv
    for sc, pe in runs[:2]:
        chk.sample({"scenario": sc, "lines": pe[:6]})
    os.remove(raw)
    return chk, failures, api


def run(tier):
    chk, failures, api = run_shared("C06", tier)
    for f in failures:
        key = classify(f)
        if f["invariant"]:
            key = "inv:" + f["invariant"]
        chk.violation("trace:" + key, "schedule line not explained (%s): %s scenario=%s" %
                      (key, json.dumps(f["event"]), json.dumps(f["meta"])), f)
    for key, sc, e in api:
        chk.violation(key, "%s: %s scenario=%s" % (key, e.get("msg", e.get("panic")), json.dumps(sc)), {"scenario": sc, "event": e})
    return chk.finish()


def replay(path):
    d = json.load(open(path))
    print(json.dumps(d, indent=1)[:6000])
    return 0
