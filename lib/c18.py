"""C18 - MCLMC keeps its structural invariants."""
import json, os
import common as C
import project, scenarios
from c03 import record_runs


def run(tier):
    chk = C.Check("C18", "model_checking", tier)
    chk.cov["rule"] = ("TLC: every ok/diverge pattern of the step loop for num_base 1..4 and 0..3 halvings (time conservation, "
                       "step count, factor = 2^-depth, termination); real MCLMC chains (3 presets, trajectory kinds, dynamic on/off, "
                       "subsample frequencies, jitter, tight energy limits and injected faults to force divergences at chosen "
                       "evaluations) validated against MclmcTrace; non-trivial draw: one with a retry, a give-up or the switch; "
                       "distinct by (scenario, draw)")
    chk.assumptions = ["harness-side predicates (declared): unit norm 1e-9, ESH update and its kinetic-energy change against the "
                       "closed form 1e-9, num_base == max(1, round(f*L/eps)) recomputed from the logged step size with the same "
                       "IEEE operations", "ESH events are recorded for dim <= 8"]
    C.build_harness()
    r = C.tlc("MC_Mclmc.tla", "MC_Mclmc.cfg", "c18_mc", timeout=600)
    C.require_tlc_ok(r, "Mclmc MC")
    chk.add_tlc(r, "kernel_mc")
    if r["violated"]:
        chk.violation("spec:mclmc", "Mclmc kernel invariant %s violated" % r["violated"], r["out"][-2000:])
    n = 150 if tier == "quick" else 12000
    raw = record_runs(scenarios.mclmc_scenarios(C.seed() * 86028121 + 31, n), "c18")
    runs = []
    draws = nontriv = esh = 0
    for sc, ev in project.read_runs(raw):
        pe, ne = project.project_mclmc(sc, ev)
        esh += ne
        if len(pe) > 1:
            runs.append((sc, pe))
            retry = False
            for x in pe:
                if x["e"] == "mstep" and x["res"] != "ok":
                    retry = True
                if x["e"] == "mswitch":
                    retry = True
                if x["e"] == "out":
                    draws += 1
                    nontriv += 1 if retry else 0
                    retry = False
    failures, st = C.validate_runs("MclmcTrace.tla", "MclmcTrace.cfg", runs, "c18", max_rejections=30)
    chk.cov["states"] += st["states"]
    chk.cov["transitions"] += st["generated"]
    chk.cov["traces_validated_against_impl"] = st["runs_validated"]
    chk.cov["evaluations"] = draws
    chk.cov["distinct_nontrivial"] = nontriv
    chk.part("trace_validation", chains=len(runs), draws=draws, esh_updates_checked=esh, tlc_runs=st["tlc_runs"],
             wall_s=round(st["wall"], 1))
    for sc, pe in runs[:2]:
        chk.sample({"scenario": sc, "events": pe[:14]})
    seen = set()
    for f in failures:
        ev = f["event"]
        why = [k for k in ("nbok", "unit", "eshok", "fresh") if ev.get(k) is False and (k != "fresh" or ev.get("div"))]
        key = "%s:%s:%s" % (ev.get("e"), ev.get("res", ""), "+".join(why) or "structure")
        if key in seen:
            continue
        seen.add(key)
        chk.violation(key, "MCLMC event not explained by Mclmc.tla: %s; scenario=%s" %
                      (json.dumps(ev), json.dumps(f["meta"])[:600]), f)
    os.remove(raw)
    return chk.finish()


def replay(path):
    print(open(path).read()[:6000])
    return 0
