"""C17 - vector kernels agree with scalar arithmetic for every length and value (exact lattice + special values)."""
import json, os
import common as C


def run(tier):
    chk = C.Check("C17", "model_checking", tier)
    chk.cov["rule"] = ("Kernels.tla defines axpy, axpy_out, element-wise product, dot, the fused dot products scalar_prods2/3 and "
                       "sq_norm_sum as element-by-element formulas over integer sequences and the IEEE special-value classes; TLC "
                       "evaluates them for every length 0..130 on inputs in which every element is distinguishable (x_i = i, y_i = "
                       "7i mod 11 - 5, ...), 5 scalars, and for one NaN / +inf / -inf swept over every position for 19 lengths "
                       "around SIMD boundaries; the real CpuMath methods must return exactly these values (bit-exact) and classes, "
                       "must not disturb other elements, and finiteness / non-zero tests must find a special value or zero at "
                       "every position; the harmonic flows (gradient flow exactly for 5 half-integer steps; rotation: identity at "
                       "eps = 0, within 4 ulp of the element formula for 5 real steps, special value at every position for the four "
                       "sign patterns of (cos, sin)), the low-rank application and array_mult_eigs (signed coordinate columns of "
                       "rank 0..5 for every length, half-Hadamard columns of rank 0..4 on every block of four coordinates) "
                       "likewise; non-trivial: every case; distinct by (kind, length, position, special)")
    chk.assumptions = ["exact lattice only: the 'up to floating-point summation error' clause for general reals, subnormals and the "
                       "full exponent range is not decided (TLC has no rounding model)",
                       "vectors are allocated by the backend (alignment offsets cannot be chosen through the public Math trait)",
                       "the rotation's cos / sin are not rational: its element formula is stated in Kernels.tla and evaluated by TLC "
                       "for integer stand-ins (which the harness's reference formula must reproduce exactly); for real steps the "
                       "comparison is a harness-side predicate (4 ulp of the larger product)",
                       "low-rank application is exact only for the dyadic orthonormal families used (coordinate and Hadamard columns)"]
    C.build_harness()
    cfg = os.path.join(C.WORK, "c17.cfg")
    lens = "{1, 2, 3, 4, 5, 7, 8, 9, 15, 16, 17, 31, 32, 33, 63, 64, 65, 129, 130}" if tier == "quick" else \
        "{" + ", ".join(str(i) for i in range(1, 131)) + "}"
    with open(cfg, "w") as f:
        f.write("CONSTANTS\n  MaxLen = 130\n  SpecialLens = %s\nSPECIFICATION MCSpec\nINVARIANT Emit\nCHECK_DEADLOCK FALSE\n" % lens)
    r = C.tlc("MC_Kernels.tla", cfg, "c17", timeout=3000, workers=8)
    C.require_tlc_ok(r, "Kernels")
    chk.add_tlc(r, "kernels_mc")
    lines = C.replay_lines(r["out"])
    summ = os.path.join(C.WORK, "c17.json")
    C.vh(["replay-kernels", "-", summ], stdin="\n".join(lines) + "\n", check=True, timeout=3000)
    s = json.load(open(summ))
    chk.part("replay", cases=s["cases"], checks=s["checks"], lengths=s["lengths"], failures=s["failures"])
    chk.cov["evaluations"] = s["checks"]
    chk.cov["distinct_nontrivial"] = s["cases"]
    chk.cov["traces_validated_against_impl"] = s["cases"]
    for x in s["samples"][:1]:
        chk.sample({"kernel_case": x})
    if s["lengths"] != 131:
        raise C.ToolError("not all lengths 0..130 were replayed")
    if s["failures"]:
        f0 = s["first_failures"][0]["mismatch"]
        chk.violation("kernel:%s" % f0.split(" ")[0], "CpuMath kernel deviates from the element-by-element formula: " + f0, s["first_failures"])
    chk.cov["exhaustive"] = True
    return chk.finish()


def replay(path):
    print(open(path).read()[:6000])
    return 0
