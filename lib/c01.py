"""C01 - NUTS transition is reversible.
 1. TLC: detailed balance / stochasticity / mirrored-trajectory on NutsKernel (denotational)
 2. TLC: NutsTree (operational) induces exactly K on complete orbits (refinement link)
 3. spec->code: every NutsTree behaviour (all directions, orbit facts, accept decisions)
    replayed into the real nuts::draw with scripted Hamiltonian and RNG
"""
import json, os, shutil, subprocess, sys
import common as C
import orbits


def write_cfg(path, text):
    with open(path, "w") as f:
        f.write(text)


def kernel_cfg(d, weights, family, apex):
    return ("CONSTANTS\n  MaxDepth = %d\n  Weights = {%s}\n  Family = \"%s\"\n  ApexMax = %d\n"
            "SPECIFICATION Spec\nINVARIANTS InvDetailedBalance InvStochastic InvMirror\n"
            "CHECK_DEADLOCK FALSE\n") % (d, ",".join(map(str, weights)), family, apex)


def run_kernel(chk, name, d, weights, family, apex, timeout):
    cfg = os.path.join(C.WORK, "c01_%s.cfg" % name)
    write_cfg(cfg, kernel_cfg(d, weights, family, apex))
    r = C.tlc("MC_NutsKernel.tla", cfg, "c01_" + name, timeout=timeout, workers=min(14, C.TLC_WORKERS + 4))
    C.require_tlc_ok(r, "NutsKernel " + name)
    chk.add_tlc(r, "kernel_" + name)
    if r["violated"]:
        chk.violation("spec:kernel:" + name, "NutsKernel (%s): %s violated - the specified tree builder is not reversible"
                      % (name, r["violated"]), r["out"][-3000:])
    return r


def run_refine(chk, name, depth, n, weights, timeout=600):
    wd = C.workdir("c01_refine_" + name)
    for f in ["MC_NutsRefine.tla", "MC_NutsRefine.cfg", "NutsTree.tla", "NutsKernel.tla", "Rat.tla"]:
        shutil.copy(os.path.join(C.SPEC, f), wd)
    orbits.gen(os.path.join(wd, "OrbitsData.tla"), depth, n, C.seed() * 7919 + depth, weights)
    meta = os.path.join(wd, "meta")
    p = subprocess.run(["timeout", str(timeout), "tlc", "-workers", "1", "-metadir", meta, "-cleanup",
                        "-noGenerateSpecTE", "-config", "MC_NutsRefine.cfg", "MC_NutsRefine.tla"],
                       cwd=wd, stdout=subprocess.PIPE, stderr=subprocess.STDOUT, text=True)
    out = p.stdout
    m = None
    for m in C.TLC_STATS.finditer(out):
        pass
    r = {"generated": int(m.group(1)) if m else 0, "distinct": int(m.group(2)) if m else 0,
         "wall": 0.0, "cmd": "tlc -workers 1 -config MC_NutsRefine.cfg MC_NutsRefine.tla (%d random orbits, depth %d)" % (n, depth)}
    chk.add_tlc(r, "refine_" + name)
    bad = ("is false" in out) or ("is violated" in out)
    if p.returncode == 124 or (not bad and "No error has been found" not in out):
        sys.stderr.write(out[-3000:])
        raise C.ToolError("refinement run failed (%s)" % name)
    if bad:
        chk.violation("spec:refine:" + name, "NutsTree does not induce the kernel K of NutsKernel (%s)" % name, out[-3000:])
    shutil.rmtree(wd, ignore_errors=True)


def tree_cfg(weights, configs, div, err):
    return ("CONSTANTS\n  Weights = {%s}\n  Configs <- %s\n  AllowDiv = %s\n  AllowErr = %s\n  Emit = TRUE\n"
            "SPECIFICATION MCSpec\nINVARIANTS StructOK DoneOK StepsOK MindepthOK EmitReplay\nCHECK_DEADLOCK FALSE\n"
            ) % (",".join(map(str, weights)), configs, "TRUE" if div else "FALSE", "TRUE" if err else "FALSE")


def run_replay(chk, name, weights, configs, div, err, simulate=None, depth=None, timeout=900):
    """TLC enumerates (or simulates) NutsTree behaviours; pipe them into the real tree builder."""
    cfg = os.path.join(C.WORK, "c01_tree_%s.cfg" % name)
    write_cfg(cfg, tree_cfg(weights, configs, div, err))
    r = C.tlc("MC_NutsTree.tla", cfg, "c01_tree_" + name, timeout=timeout, simulate=simulate, depth=depth,
              seed_arg=(C.seed() if simulate else None), workers=(4 if simulate else None))
    if simulate is None:
        C.require_tlc_ok(r, "NutsTree " + name)
    elif r["rc"] not in (0, 124) and r["violated"] is None:
        # simulation ends by num= limit
        pass
    chk.add_tlc(r, "tree_" + name)
    if r["violated"]:
        chk.violation("spec:tree:" + name, "NutsTree invariant %s violated (%s)" % (r["violated"], name), r["out"][-3000:])
    lines = C.replay_lines(r["out"])
    if not lines:
        raise C.ToolError("no behaviours emitted for " + name)
    summ = os.path.join(C.WORK, "c01_replay_%s.json" % name)
    p = C.vh(["replay-nuts", "-", summ], stdin="\n".join(lines) + "\n", check=True)
    s = json.load(open(summ))
    chk.part("replay_" + name, **{k: s[k] for k in ("behaviours", "distinct", "nontrivial", "failures")})
    chk.cov["evaluations"] += s["behaviours"]
    chk.cov["distinct_nontrivial"] += s["nontrivial"]
    chk.cov["traces_validated_against_impl"] += s["distinct"]
    for x in s["samples"][:2]:
        chk.sample({"replayed_behaviour": x})
    if s["failures"]:
        f = s["first_failures"][0]
        chk.violation("replay:" + name, "real nuts::draw deviates from NutsTree: " + f["mismatch"], s["first_failures"])
    return s


def run(tier):
    chk = C.Check("C01", "model_checking", tier)
    chk.cov["rule"] = ("TLC enumerates orbit families (weights x U-turn tables) and checks w(z)K(z,z')=w(z')K(z',z) exactly "
                       "(rationals); TLC enumerates every behaviour of the operational tree spec (directions x leapfrog outcomes "
                       "x U-turn answers x accept decisions) and each is replayed into the real nuts::draw; a replayed behaviour "
                       "is non-trivial if it has >= 2 merges; distinct by its event list")
    chk.assumptions = [
        "detailed balance is established by enumeration up to tree depth 2 (quick) / 3 (thorough, depth 3 with equal weights only), not for all depths",
        "replay drives the real tree builder through a scripted Hamiltonian; the real integrator's contribution is covered by C02/C03; "
        "the momentum refresh of the real Hamiltonian is bound as a data-flow property (MomentumTrace, as under C04), its distribution is trusted to rand_distr",
        "acceptance probabilities are compared with 1e-12 relative tolerance (logaddexp/exp are inexact) and by RNG words placed 1e-9 around p",
    ]
    C.build_harness()
    # 1. denotational kernel
    run_kernel(chk, "d1_all", 1, [1, 2], "all", 0, 600)
    run_kernel(chk, "d2_apex1", 2, [1, 2], "apex", 1, 1200)
    if tier == "thorough":
        run_kernel(chk, "d1_all_w3", 1, [1, 2, 3], "all", 0, 1800)
        run_kernel(chk, "d2_apex2", 2, [1, 2], "apex", 2, 3000)
        # depth 3 with two weight values does not finish within an hour on this machine; with equal weights detailed
        # balance is symmetry of K over all U-turn tables (about 10 min)
        run_kernel(chk, "d3_apex0_w1", 3, [1], "apex", 0, 5400)
    # 2. refinement operational -> denotational
    run_refine(chk, "d2", 2, 40 if tier == "quick" else 400, (1, 2, 3))
    run_refine(chk, "d1", 1, 40 if tier == "quick" else 200, (1, 2, 3))
    if tier == "thorough":
        run_refine(chk, "d3", 3, 30, (1, 2), timeout=1800)
    # 3. replay into the implementation
    run_replay(chk, "quickcfgs", [1, 2], "ConfigsQuick", True, True)
    run_replay(chk, "d3", [1, 2], "ConfigsDefault3", True, False)
    run_replay(chk, "sim_d5", [1, 2, 3], "ConfigsSim", True, True, simulate=(3000 if tier == "quick" else 60000), depth=400)
    if tier == "thorough":
        # (exhaustive enumeration of the wide option set is 4e7 states and 17 GB of behaviours: sampled instead;
        # the invariants of that configuration are model-checked exhaustively under C03)
        run_replay(chk, "wide_sim", [1, 2], "ConfigsWide", True, True, simulate=150000, depth=400)
        run_replay(chk, "d3_w3_sim", [1, 2, 3], "ConfigsDefault3", False, False, simulate=150000, depth=400)
    # 4. the momentum refresh of the real Hamiltonian (the kernel above takes the start momentum as given): every momentum
    # of real NUTS chains is the standard-normal transform, scale one, of fresh words of the chain's stream (Momentum.tla)
    import c04
    c04.momentum_traces(chk, 45 if tier == "quick" else 600, name="c01_mom", prefix="momentum:")
    chk.cov["exhaustive"] = True
    return chk.finish()


def replay(path):
    d = json.load(open(path))
    print(json.dumps(d, indent=1)[:4000])
    return 0
