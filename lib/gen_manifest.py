#!/usr/bin/env python3
"""Regenerate MANIFEST.json from the table below (single source of truth)."""
import json, os
V = os.path.dirname(os.path.dirname(os.path.abspath(__file__)))
CHECKS = {
 "C01": dict(cat="model_checking", tech="TLA+ kernel spec: exact-rational detailed balance in TLC + refinement of the operational tree spec + replay of every TLC behaviour into real nuts::draw",
   text="TLC proves detailed balance, stochasticity and mirrored-trajectory for the denotational NUTS kernel on exhaustive bounded orbit families (depth 1 all U-turn tables; depth 2 apex families), proves the operational tree spec induces that kernel on random complete orbits, and every behaviour of the operational spec up to depth 3 (all directions, leapfrog outcomes, U-turn answers, accept decisions) is replayed step by step into the real tree builder with scripted Hamiltonian and RNG. A change to selection probabilities, U-turn operands or stop rules is a conformance mismatch against a spec shown reversible.",
   note="balance enumerated to depth 2 (quick) / 3 (thorough); acceptance probabilities compared at 1e-12 and by RNG words 1e-9 around p; real integrator contribution covered under C02/C03", ref="5/C01"),
 "C03": dict(cat="model_checking", tech="TLA+ operational tree spec (TLC invariants over all behaviours) + trace validation of hook events of real chains against it",
   text="TLC checks the C03 inequalities, draw membership, stop exactness and maxdepth-flag rules on every behaviour of the operational tree spec for all small option combinations; every hook event and every API output of thousands of draws of real chains (3 NUTS presets, Euclidean/ExactNormal, depth/mindepth/extra/energy-limit/integration-time options, 9 densities, injected faults) must be explained line by line by the trace spec, which carries the identity (bit pattern hash) of the state selected as draw through every merge.",
   note="state identity by bit pattern hash; merge arithmetic, energy_error and gradient identity are harness-side predicates; interleavings not relevant (single chain)", ref="5/C03"),
 "C06": dict(cat="model_checking", tech="TLA+ schedule state machine (TLC over all histories) + per-draw trace validation of the adapt() hook joined with Progress/stats",
   text="TLC checks on AdaptSchedule, for all good/rejected histories and a family of scaled schedule constants, that tuning is reported exactly for draws < num_tune and that nothing changes the transformation from the final window on; every draw of real chains (six presets, num_tune 0..400, window fractions, frequencies, growth, jitter None/0/0.1, dual averaging/Adam/fixed) is one trace line that the trace spec must explain, including Progress.tuning, stats.tuning, transformation id, and the harness-side predicates 'averaged step size constant after warm-up' and 'step inside jitter band'.",
   note="schedule constants read from the implementation; band/constancy predicates computed harness-side from bit patterns; flow presets use the harness's affine flow", ref="5/C06"),
 "C07": dict(cat="model_checking", tech="TLA+ search automaton (TLC over all probe outcomes) + trace validation of the search hook events of real chains; TLA+ exact-rational model of the dual-averaging / Adam error recurrences (TLC over all ordered history pairs) replayed into the real estimators; routing and bounds through the schedule trace spec",
   text="StepSizeSearch.tla: direction from the first probe, exponent moves by one per probe, stop at the first probe on the far side of the target, installed step = that probe's step, estimator re-created from it, every other exit installs the configured initial step and leaves the estimator alone - Bracket / FallbackIsInitial checked by TLC for all outcomes; every search (initial and re-run) of 240 (quick) / 3000 (thorough) real chains with initial steps 1e-7..1e4, targets 0.05..0.99, injected probe faults is validated event by event against it. StepSizeUpdate.tla: hbar and Adam's smoothed error as exact rationals, Monotone and HbarBounded checked by TLC over all pairs of pointwise ordered acceptance histories on a grid; each pair is run through the real DualAverage and Adam under 5 parameter sets: iterate and weighted average follow the documented formulas from TLC's exact hbar, step positive / finite / <= max_step_size, higher acceptance never a smaller step, Adam moves up exactly when the smoothed error is positive. Routing of the two acceptance statistics and boundedness of every step size on real chains via AdaptScheduleTrace.",
   note="comparison of acceptance with target, power-of-two exponents and formula agreement (1e-9 in log space) are harness-side predicates; monotonicity decided on a grid of acceptance values for 4 updates, not for all reals", ref="5/C07"),
 "C09": dict(cat="model_checking", tech="TLA+ schedule state machine with estimator window bookkeeping; trace spec predicts counts/windows/switches/updates/re-search/routing from constants and good/rejected history",
   text="AdaptSchedule models both estimators as (count, first admissible draw) with the switch history; TLC checks staleness (foreground only holds draws since the switch before last), switch rule (full window and room for another before the final window), window growth, single re-search and statistic routing over all histories; real chains' hook logs must match the predicted counts, window sizes, switch/update draws and routing on every draw.",
   note="good/rejected for NUTS recomputed from draw index and divergence; for MCLMC inferred by TLC from logged counts", ref="5/C09"),
 "C10": dict(cat="model_checking", tech="TLA+ controller spec (no cross-chain writes, prefix invariant over all interleavings) + trace validation of perturbed real Sampler runs against it with the sequential single-chain run as Full(i)",
   text="Sampler.tla makes the non-interference structure explicit (chain i's log is advanced only by ChRecord(i)); real runs with num_cores 1..16, 1..8 chains, a seeded perturbing scheduler at every channel/lock/draw point and random pause/resume/progress/flush/inspect scripts are validated event by event: every draw's position hash must equal the draw of the sequential reference run of that chain, finalized traces must be prefixes of the reference records, different chains must have different reference sequences.",
   note="interleavings sampled in the real code; reference run reproduces ChainProcess::start through the public API; identity by FNV hashes of bit patterns", ref="5/C10"),
 "C11": dict(cat="model_checking", tech="TLA+ controller spec: TLC over all interleavings (deadlock, safety, termination under fairness) + trace validation of real Sampler runs with silent steps",
   text="TLC explores all interleavings of user thread, controller and chain tasks for 2-3 chains, cores <,=,> chains, command scripts of length <= 3 incl. repeated pause, resume without pause, commands after completion, abort while paused / before start: no deadlock, every call returns, termination, complete or prefix traces, progress counters agree with the trace at quiescence. Real runs (perturbing scheduler, watchdog for hanging calls) must be behaviours of the spec; the spec's invariants are evaluated on every state of every observed execution.",
   note="rayon and std::sync::mpsc trusted; log order is the order of emits under one mutex with send-before / receive-after conventions; negative observations (empty poll) are accepted if consistent with any instant since the chain's previous event", ref="5/C11"),
 "C12": dict(cat="model_checking", tech="TLA+ controller spec with pause-window history variables (quota/since) checked by TLC and on traces of real runs with slow densities",
   text="PauseBound (draws recorded after pause() returned <= commands queued for that chain at that moment; window closes when resume() is called), ParkedSilent and CompleteRun hold over all placements of pause/resume relative to the chain loop in the model; the same invariants are evaluated on every state of real executions with pauses landing at random offsets inside draws, and the final trace must equal the uninterrupted reference.",
   note="pause placement in real code sampled by sleeps and scheduler perturbation", ref="5/C12"),
 "C13": dict(cat="model_checking", tech="TLA+ controller spec with failure actions (TLC) + fault injection into the real Sampler validated against it",
   text="Model: fatal density error, storage error, init failure, two faulty chains - no panic in the caller, wait_timeout reports Err, abort reports the failure, termination; the unwrap variant must violate NoPanic (teeth). Real code: injected fatal/recoverable density faults by evaluation index, failing storage backend, failing init_position and model construction, for every chain index and both terminal calls; the trace spec's final step requires an error outcome iff a failure action occurred.",
   note="errors during the 500 initialisation attempts are retried by design and not counted as failures", ref="5/C13"),
 "C05": dict(cat="fault_enumeration", tech="TLA+ rule set for fault outcomes (consistency by TLC) + enumeration of every (evaluation index, fault kind) in real chains, each API call validated against the rules by trace validation",
   text="For 3 NUTS presets every density evaluation of set_position plus draws crossing the first transformation change (so initial search, trajectories, re-run search) is hit in turn by each of 8 fault kinds (recoverable / unrecoverable error, NaN, +inf, -inf log-density, NaN / inf gradient, energy jump), plus sampled pairs; every API call of every run (under catch_unwind) is one line that FaultTrace must accept under the FaultSemantics rules R1-R6; TLC also checks the rule set is total and that a fatal fault forces Err.",
   note="phase of an evaluation derived from hook events of the same run; non-fatal faults at initialisation / at the start evaluation of the re-run search may end in Ok or Err (the statement does not say); MCLMC retry behaviour is covered under C18", ref="5/C05"),
 "C16": dict(cat="model_checking", tech="TLA+ per-draw schema automaton; trace validation of get_all() output of real chains against the declared schema",
   text="The declared schema (names, types, dims, event dims, dim sizes) is the trace header; every draw of 240 (quick) / 2400 (thorough) chains over all six presets x store_* flags x mass-matrix options x dims x divergence / update histories is one line; the spec requires exact names and order, declared type and length for present values, all-or-none presence of non-event fields, event fields only on event draws, identifying fields on every event draw, divergence fields iff diverging, update fields iff the transformation id (from the adaptation hook) changed, counters +1, constant chain id.",
   note="'changed' comes from the adaptation hook rather than from the statistic itself; name distinctness is not part of this property", ref="5/C16"),
 "C18": dict(cat="model_checking", tech="TLA+ step-loop spec (TLC over all ok/diverge patterns) + trace validation of MCLMC hook events with harness-side numeric predicates",
   text="Mclmc.tla models the halving-stack step loop: factor = 2^-depth, exact conservation of integration time, step count = num_base iff no retry, give-up at the halving limit, no retry without dynamic step size; checked for all outcome patterns at num_base 1..4, 0..3 halvings. Real chains of the three MCLMC presets (trajectory kinds, dynamic on/off, subsample frequencies, jitter, forced divergences) must be behaviours of MclmcTrace, which also checks the Euclidean->Microcanonical switch (once, at the configured draw, with resampled momentum), unchanged position + fresh unit momentum on divergent draws, start-from-previous-draw, and Progress/stat step counts.",
   note="unit norm, ESH closed form (dim <= 8) and num_base formula are harness-side predicates at 1e-9 / exact", ref="5/C18"),
 "C14": dict(cat="model_checking", tech="TLA+ abstract-log spec with per-backend observation functions; TLC-enumerated operation sequences executed on every real backend, answers decoded and validated against the spec (trace validation)",
   text="TLC enumerates all operation sequences (records with warm-up / divergence / update flags, flush, inspect, finalize after any prefix) of the abstract log for num_tune, num_draws <= 2 and checks the log-level properties; each sequence is executed on HashMap, Arrow, ndarray, CSV, Zarr sync and Zarr async through the crate's storage traits with 1..3 chains, store_warmup on/off, optional/event field options and all value types and shapes (scalar, vector, 2x3 / 3x2 matrix; NaN, +-inf, empty strings); the answer, read back with a fresh reader (zarrs re-open, CSV re-parse, Arrow arrays, ndarray views) and decoded to record indices, must equal the observation Storage.tla computes for that backend's layout.",
   note="values are injective in (variable, chain, record); decoding by exact canonical cell comparison harness-side; 'draw'/'chain' stats omitted by design in HashMap/ndarray/Zarr are not demanded; CSV inspect has no result by design; Zarr inspect counts as a reader observation", ref="5/C14"),
 "C15": dict(cat="model_checking", tech="TLA+ chunk-buffer spec with crash points (TLC) + replay of its behaviours on the real Zarr backends with a fresh reader after every operation",
   text="ZarrBuffer.tla models SampleBuffer (push, full-chunk write, warm-up reset, flush = partial-chunk write, async in-flight writes landing in any order, finalize) and TLC checks for chunk sizes 1..4, up to 4+4 draws, up to 2 flushes that the reader's view contains everything recorded before the last flush, unchanged by later pushes / flushes / finalisation, and no garbage; a variant whose flush does not join pending writes must violate it (teeth). Every behaviour is executed on the real sync (memory + filesystem store) and async (normal and slow write queue) backends; a fresh zarrs reader is opened after every flush and every later record and its view must satisfy ReaderOK of Storage.tla.",
   note="crash = reader opening the store between two operations; async timing sampled with a slowed single-worker runtime", ref="5/C15"),
 "C02": dict(cat="model_checking", tech="TLA+ exact-rational lattice spec of the affine transformations and the whitened leapfrog (identities checked by TLC) + bit-exact replay of every case into the real transformations and integrator",
   text="On dyadic inputs IEEE arithmetic is exact, so Lattice.tla (rational arithmetic in TLC) is a bit-exact oracle: TLC checks on every enumerated case (d=1 full grid, d=2 correlated precision with rank 0..2, d=4 with Hadamard eigenvectors of every rank 0..4, d up to 64 with sparse patterns) time reversal, bijectivity, pull-back = transposed Jacobian and equality with the textbook leapfrog for M^-1 = F F'; the real DiagMassMatrix / LowRankMassMatrix and TransformedHamiltonian::leapfrog are driven through each case and compared bit for bit (whitened and original position, velocity, both gradients, logp, index, U-turn answer and its symmetry, backward step).",
   note="decides structure, not rounding; energy change at 1e-12; O(eps^2) error, volume preservation over R^d, ExactNormal and Microcanonical integrators are not decided by this technique (DESIGN.md 6)", ref="5/C02"),
 "C17": dict(cat="model_checking", tech="TLA+ element-by-element kernel formulas and IEEE special-value classes evaluated by TLC for all lengths 0..130; bit-exact replay into the real CpuMath methods",
   text="Kernels.tla gives axpy, axpy_out, element-wise product, dot, scalar_prods2/3 and sq_norm_sum as plain formulas over integer sequences and the class (NaN, +inf, -inf, finite) of each result when one element is special; TLC evaluates them for every length 0..130 with inputs in which every element is distinguishable and with one special value swept over every position; the real CpuMath methods must reproduce the integers exactly, the classes, leave other elements untouched, and detect a special value or zero at every position.",
   note="exact lattice and special values only; summation-error bounds on general reals, subnormals, alignment offsets are not decided", ref="5/C17"),
}
NOT_APPLICABLE = {
 "C19": "encode/decode fidelity of a plain data structure plus equality of two deterministic runs: no state machine, schedule, history or fault to specify in TLA+ (DESIGN.md 5/C19)",
}
NOT_BUILT = ["C02","C03","C04","C05","C06","C07","C08","C09","C10","C11","C12","C13","C14","C15","C16","C17","C18"]

def main():
    checks = []
    for pid in sorted(CHECKS):
        c = CHECKS[pid]
        checks.append({
            "property_id": pid,
            "quick_cmd": "bin/check %s --tier quick" % pid,
            "thorough_cmd": "bin/check %s --tier thorough" % pid,
            "evidence_file": "evidence/%s.json" % pid,
            "replay_cmd_template": "bin/check %s --replay {path}" % pid,
            "engine": "tlc+vh",
            "level_claimed": {"category": c["cat"], "text": c["text"], "design_ref": c["ref"]},
            "level_note": c["note"],
            "technique": c["tech"],
        })
    na = [{"property_id": k, "reason": v} for k, v in sorted(NOT_APPLICABLE.items())]
    for pid in NOT_BUILT:
        if pid not in CHECKS and pid not in NOT_APPLICABLE:
            na.append({"property_id": pid, "reason": "check not built yet in this round (planned with the TLA+ technique, see DESIGN.md section 5)"})
    m = {
        "version": 1,
        "setup_cmd": "bin/setup",
        "hooks": {
            "guard": "nuts_rs_verif",
            "enable": "RUSTFLAGS='--cfg nuts_rs_verif' (set in harness/.cargo/config.toml; the harness has a path dependency on /repo)",
            "baseline_off_cmd": "cd /repo && cargo nextest run --workspace --no-fail-fast --test-threads 8 --offline || cargo test --workspace --no-fail-fast --offline",
            "source_commits": json.load(open(os.path.join(V, "hooks.json")))["commits"],
            "add_only": True,
        },
        "engines": [
            {"name": "tlc", "path": "spec/", "serves_properties": sorted(CHECKS), "kind_free_text": "TLA+ specifications checked with TLC (exhaustive, simulation, trace validation)"},
            {"name": "vh", "path": "harness/", "serves_properties": sorted(CHECKS), "kind_free_text": "Rust conformance harness (replay of TLC behaviours into nuts-rs; recording of hook traces)"},
        ],
        "checks": checks,
        "not_applicable": sorted(na, key=lambda x: x["property_id"]),
        "notes": "Driver: bin/check <id> --tier quick|thorough. Known findings: known_findings.jsonl.",
    }
    json.dump(m, open(os.path.join(V, "MANIFEST.json"), "w"), indent=1)

if __name__ == "__main__":
    main()
