"""C16 - statistics schema and per-draw values are mutually consistent."""
import json, os
import common as C
import project, scenarios
from c03 import record_runs


def run(tier):
    chk = C.Check("C16", "model_checking", tier)
    chk.cov["rule"] = ("all six presets x store_* flags x mass-matrix options x dims (0,1,3,5) x histories with / without "
                       "divergences (tight energy limits, injected faults) and transformation updates; the declared schema "
                       "(names, types, dims, event dims, dim sizes from Settings::stat_*) is the header, every draw's "
                       "get_all() output one line; StatsSchemaTrace must accept every line; non-trivial line: a divergent "
                       "draw or a draw with a transformation update; distinct by (scenario, draw)")
    chk.assumptions = ["'transformation changed' is taken from the adaptation hook (transformation id after adapt), not from the statistic itself",
                       "flow presets declare no update-event statistics"]
    C.build_harness()
    r = C.tlc("MC_StatsSchema.tla", "MC_StatsSchema.cfg", "c16_mc", timeout=600)
    C.require_tlc_ok(r, "StatsSchema MC")
    chk.add_tlc(r, "automaton_mc")
    if r["violated"]:
        chk.violation("spec:schema", "StatsSchema automaton: %s" % r["violated"], r["out"][-2000:])
    n = 240 if tier == "quick" else 12000
    raw = record_runs(scenarios.schema_scenarios(C.seed() * 2750159 + 21, n), "c16")
    runs = []
    lines = nontriv = 0
    for sc, ev in project.read_runs(raw):
        pe = project.project_schema(sc, ev)
        if len(pe) > 1:
            runs.append((sc, pe))
            for x in pe[1:]:
                lines += 1
                if x["diverging"] or x["changed"]:
                    nontriv += 1
    failures, st = C.validate_runs("StatsSchemaTrace.tla", "StatsSchemaTrace.cfg", runs, "c16", max_rejections=30)
    chk.cov["states"] += st["states"]
    chk.cov["transitions"] += st["generated"]
    chk.cov["traces_validated_against_impl"] = st["runs_validated"]
    chk.cov["evaluations"] = lines
    chk.cov["distinct_nontrivial"] = nontriv
    chk.part("trace_validation", chains=len(runs), lines=lines, tlc_runs=st["tlc_runs"], wall_s=round(st["wall"], 1))
    for sc, pe in runs[:2]:
        chk.sample({"scenario": sc, "header": pe[0], "first_draw": pe[1]})
    seen = set()
    for f in failures:
        ev = f["event"]
        hdr = next((e for e in f["prefix"] if e.get("e") == "reset"), None)
        why = "?"
        if ev.get("e") == "draw":
            bad = [x["name"] for x in ev["st"] if x["present"]]
            why = "diverging=%s,changed=%s" % (ev["diverging"], ev["changed"])
        key = "draw:%s:%s" % (f["meta"]["preset"], why)
        if key in seen:
            continue
        seen.add(key)
        chk.violation(key, "per-draw statistics inconsistent with the schema: %s; scenario=%s" %
                      (json.dumps(ev)[:900], json.dumps(f["meta"])[:400]), f)
    os.remove(raw)
    return chk.finish()


def replay(path):
    print(open(path).read()[:6000])
    return 0
