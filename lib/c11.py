"""C11 - controller never deadlocks; traces are complete or an exact prefix."""
import json
import common as C
import sampler_check as S
import scenarios


def run(tier):
    chk = C.Check("C11", "model_checking", tier)
    chk.cov["rule"] = ("TLC explores every interleaving of user, controller and chain tasks of Sampler.tla for small constants "
                       "(deadlock, safety invariants, termination under fairness); real Sampler runs under a perturbing scheduler "
                       "with random command scripts are validated event by event against SamplerTrace; a run is non-trivial if it "
                       "has >= 2 chains and >= 2 control commands; distinct by scenario")
    chk.assumptions = ["interleavings of the real code are sampled (perturbing scheduler at every channel / lock / draw point), "
                       "exhaustive only in the model", "rayon / std::sync::mpsc internals are trusted",
                       "log order = order of emits under one mutex; sends logged before, receives after, lock-protected steps inside the lock"]
    C.build_harness()
    S.mc(chk, "c2_k1_d2", "Chains2", 1, 2, 2, 1, "FaultsNone", False, S.SAFETY, True)
    S.mc(chk, "c2_k2_d2", "Chains2", 2, 2, 2, 1, "FaultsNone", False, S.SAFETY, True)
    # num_tune + num_draws = 0: the run must still terminate with empty traces
    S.mc(chk, "c2_k1_d0", "Chains2", 1, 0, 2, 1, "FaultsNone", False, S.SAFETY, True)
    if tier == "thorough":
        S.mc(chk, "c3_k2_d2", "Chains3", 2, 2, 2, 1, "FaultsNone", False, S.SAFETY, False, timeout=6000)
        S.mc(chk, "c2_k1_d3_cmd3", "Chains2", 1, 3, 3, 2, "FaultsNone", False, S.SAFETY, True, timeout=6000)
    per = 6 if tier == "quick" else 60
    scs = scenarios.sampler_scenarios(C.seed() * 104729 + 11, per, "none")
    raw = S.record(scs, "c11")
    failures, groups = S.validate_groups(chk, raw, "c11")
    chk.cov["distinct_nontrivial"] = S.nontrivial_runs(groups)
    for f in failures:
        key = S.failure_key(f)
        chk.violation("trace:" + key, "sampler run not explained by Sampler.tla (%s) at %s; scenario=%s" %
                      (key, json.dumps(f["event"])[:400], json.dumps(f["meta"])[:600]), f)
    return chk.finish()


def replay(path):
    print(open(path).read()[:6000])
    return 0
